"""Developer aid: run every check of MANIFEST.json at a tier, print a summary line each."""
import json, os, subprocess, sys, time
root = os.path.dirname(os.path.dirname(os.path.abspath(__file__)))
tier = sys.argv[1] if len(sys.argv) > 1 else "quick"
only = sys.argv[2:] 
m = json.load(open(os.path.join(root, "MANIFEST.json")))
bad = 0
for c in m["checks"]:
    if only and c["property_id"] not in only:
        continue
    cmd = c["quick_cmd"] if tier == "quick" else c["thorough_cmd"]
    t = time.time()
    p = subprocess.run(cmd, shell=True, cwd=root, stdout=subprocess.PIPE, stderr=subprocess.STDOUT)
    out = p.stdout.decode()
    last = [l for l in out.splitlines() if l.startswith(c["property_id"] + " ")]
    kf = sum(1 for l in out.splitlines() if l.startswith("KNOWN-FINDING"))
    print("%s rc=%d %.0fs known=%d %s" % (c["property_id"], p.returncode, time.time() - t, kf,
                                          last[-1][:140] if last else out[-300:]))
    if p.returncode != 0:
        bad += 1
        print(out[-1500:])
sys.exit(1 if bad else 0)
