"""Client lab: runs the real sievelib.managesieve.Client over the recording transport."""
from __future__ import annotations

import contextlib
import time
import random
import socket
import ssl

from . import core
from . import msmodel as ms

core.pin_repo()
from sievelib import managesieve as sl_ms  # noqa: E402

Client = sl_ms.Client
Error = sl_ms.Error

STEP_LIMIT = 400000

# Client(debug=True) only adds traces on stdout; every 4th session runs with it unless the
# check decides itself (nothing a property states depends on the switch)
_SESSIONS = [0]


class _Sink:
    def write(self, s):
        return len(s)

    def flush(self):
        pass


class Session:
    """One client object wired to one server model."""

    def __init__(self, server: ms.Server, seg: ms.Seg = None, tls_outcome="ok", debug=None):
        self.server = server
        self.wire = ms.Wire()
        self.seg = seg or ms.Seg()
        self.sock = None
        self.tls_outcome = tls_outcome
        _SESSIONS[0] += 1
        self.debug = (_SESSIONS[0] % 4 == 0) if debug is None else bool(debug)
        self.client = Client("server.example.com", debug=True) if self.debug \
            else Client("server.example.com")
        self.connect_count = 0
        self.seconds_per_recv = 0.0   # virtual seconds that pass with every recv()
        self.handshake_seconds = 0.0  # virtual seconds the TLS handshake takes

    # -- patched factories
    def _create_connection(self, addr, *a, **kw):
        self.connect_count += 1
        self.sock = ms.ScriptedSocket(self.server, self.wire, self.seg)
        self.sock.seconds_per_recv = self.seconds_per_recv
        self.wire.log("connect", repr(addr).encode())
        return self.sock

    def _create_default_context(self, *a, **kw):
        ctx = ms.FakeTLSContext(self.tls_outcome)
        ctx.handshake_seconds = self.handshake_seconds
        return ctx

    def call(self, name, *args, **kw):
        """-> ('ret', value) | ('exc', type name, message) | ('hang', where)"""
        oc, oc2 = socket.create_connection, ssl.create_default_context
        socket.create_connection = self._create_connection
        ssl.create_default_context = self._create_default_context
        om, ot = time.monotonic, time.time
        time.monotonic = lambda: om() + ms.VCLOCK["offset"]
        time.time = lambda: ot() + ms.VCLOCK["offset"]
        try:
            fn = getattr(self.client, name)
            if self.debug:
                with contextlib.redirect_stdout(_Sink()):
                    kind, val, steps = core.guarded(fn, STEP_LIMIT, *args, **kw)
            else:
                kind, val, steps = core.guarded(fn, STEP_LIMIT, *args, **kw)
        finally:
            socket.create_connection, ssl.create_default_context = oc, oc2
            time.monotonic, time.time = om, ot
        if kind == "ret":
            return ("ret", val)
        if kind == "exc":
            return ("exc", val[0], val[1], val[2])
        return ("hang", val)

    def connect(self, login="user", password="pw", **kw):
        return self.call("connect", login, password, **kw)

    def unread(self):
        """bytes the server has emitted that the client has not consumed (transport +
        client buffer, the latter through the name-mangled attribute when present)"""
        left = bytes(self.server.out)
        buf = getattr(self.client, "_Client__read_buffer", None)
        return left, buf


def authed_session(server=None, seg=None, debug=None, starttls=False, **server_kw):
    """Session with a connected + authenticated client (PLAIN), or None."""
    if server is None:
        server_kw.setdefault("users", {b"user": b"pw"})
        server = ms.Server(**server_kw)
    s = Session(server, seg, debug=debug)
    r = s.connect("user", "pw", starttls=True) if starttls else s.connect("user", "pw")
    return s, r


def outcome_key(o):
    """Normalised outcome for comparisons across executions."""
    if o[0] == "ret":
        return ("ret", repr(o[1]))
    if o[0] == "exc":
        return ("exc", o[1])
    return ("hang",)


class SocketpairSession(Session):
    """Same session over a real socket.socketpair(): the reference server runs in a
    thread behind the peer end. Sanity check that the monitors agree on the real socket
    class (no segmentation control here)."""

    def _create_connection(self, addr, *a, **kw):
        import threading
        self.connect_count += 1
        cli, peer = socket.socketpair()
        self.peer = peer
        srv = self.server
        wire = self.wire
        wire.log("connect", repr(addr).encode())

        def flush():
            if srv.out:
                data = bytes(srv.out)
                del srv.out[:]
                peer.sendall(data)
            if srv.eof:
                try:
                    peer.shutdown(socket.SHUT_WR)
                except OSError:
                    pass

        def serve():
            try:
                srv.on_connect()
                flush()
                while True:
                    data = peer.recv(65536)
                    if not data:
                        break
                    wire.log("send", data)
                    srv.feed(data, "plain")
                    flush()
            except OSError:
                pass

        self.thread = threading.Thread(target=serve, daemon=True)
        self.thread.start()
        self.sock = cli
        return cli

    def close(self):
        for s in (getattr(self, "sock", None), getattr(self, "peer", None)):
            try:
                if s is not None:
                    s.close()
            except OSError:
                pass
        t = getattr(self, "thread", None)
        if t is not None:
            t.join(timeout=2)
