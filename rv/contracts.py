"""M-CONTRACT: runtime contracts applied to the real sievelib functions from
the harness (icontract when importable, a built-in wrapper otherwise).

Contract conditions never raise into the code under test: they *record* a
firing (kind, detail) in FIRED and return True, so one violated postcondition
cannot hide what happens afterwards.  EVALS counts evaluations per contract
(zero evaluations => that monitor is inconclusive).
"""
from __future__ import annotations

import re

from . import core

core.pin_repo()
from sievelib import commands as sl_commands  # noqa: E402
from sievelib import parser as sl_parser  # noqa: E402

try:
    import icontract  # type: ignore
    # under `python -O` icontract turns its decorators into no-ops (enabled=__debug__): the
    # built-in wrappers below evaluate the very same condition functions instead
    HAVE_ICONTRACT = bool(__debug__)
except Exception:  # pragma: no cover
    icontract = None
    HAVE_ICONTRACT = False

EVALS = {}
FIRED = []  # list of (contract name, detail)
LEX = {"tokens": 0, "rewinds": 0, "calls": 0}

_ERR_RX = re.compile(r"^line (\d+): .+", re.S)


def _ev(name):
    EVALS[name] = EVALS.get(name, 0) + 1


def _fire(name, detail):
    FIRED.append((name, detail))


# ---- conditions on Parser.parse (named functions, arguments match parse's) --
def verdict_is_exactly_bool(result):
    _ev("parse.verdict_is_exactly_bool")
    if not (result is True or result is False):
        _fire("parse.verdict_is_exactly_bool", "returned %r" % (result,))
    return True


def _nlines(text):
    if isinstance(text, str):
        return 1 + text.count("\n")
    return 1 + text.count(b"\n")


def false_has_error_shape(self, text, result):
    _ev("parse.false_has_error_shape")
    if result is not False:
        return True
    err = getattr(self, "error", None)
    pos = getattr(self, "error_pos", None)
    if not isinstance(err, str):
        _fire("parse.false_has_error_shape", "error is %s" % type(err).__name__)
        return True
    m = _ERR_RX.match(err)
    if not m:
        _fire("parse.false_has_error_shape", "error text %r" % err[:60])
        return True
    n = int(m.group(1))
    if not (1 <= n <= _nlines(text)):
        _fire("parse.false_has_error_shape", "line %d outside 1..%d" % (n, _nlines(text)))
        return True
    if not (isinstance(pos, tuple) and len(pos) == 3
            and all(type(x) is int for x in pos)):
        _fire("parse.false_has_error_shape", "error_pos %r" % (pos,))
        return True
    if pos[0] != n:
        _fire("parse.false_has_error_shape", "error_pos line %d != %d" % (pos[0], n))
    return True


def true_has_command_list(self, result):
    _ev("parse.true_has_command_list")
    if result is not True:
        return True
    res = getattr(self, "result", None)
    if not isinstance(res, list) or not all(isinstance(c, sl_commands.Command) for c in res):
        _fire("parse.true_has_command_list", "result %r" % (type(res).__name__,))
    return True


_installed = False


def install_parser_contracts():
    """Decorate the real Parser.parse in place (class attribute)."""
    global _installed
    if _installed:
        return
    _installed = True
    orig = sl_parser.Parser.parse
    if HAVE_ICONTRACT:
        f = orig
        f = icontract.ensure(true_has_command_list, error=AssertionError)(f)
        f = icontract.ensure(false_has_error_shape, error=AssertionError)(f)
        f = icontract.ensure(verdict_is_exactly_bool, error=AssertionError)(f)
        sl_parser.Parser.parse = f
    else:
        def parse(self, text):
            result = orig(self, text)
            verdict_is_exactly_bool(result)
            false_has_error_shape(self, text, result)
            true_has_command_list(self, result)
            return result
        sl_parser.Parser.parse = parse
    # M-LEX: count tokens and positions that do not advance
    oscan = sl_parser.Lexer.scan

    def scan(self, text):
        LEX["calls"] += 1
        # only the first scan after lex_reset() is the monitored one: a command's completion
        # callback may run another Parser (and its Lexer) to its end in between
        outer = LEX["calls"] == 1
        last = -1
        for tok in oscan(self, text):
            if outer:
                LEX["tokens"] += 1
                if self.pos <= last:
                    LEX["rewinds"] += 1
            last = self.pos
            yield tok
    sl_parser.Lexer.scan = scan


def take_fired():
    out = list(FIRED)
    del FIRED[:]
    return out


def lex_reset():
    LEX["tokens"] = 0
    LEX["rewinds"] = 0
    LEX["calls"] = 0
