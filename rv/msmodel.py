"""M-WIRE + R-MS: recording scriptable transport and an executable reference model of an
RFC 5804 (ManageSieve) server with a strict command parser and a reply encoder.

Nothing here imports sievelib.  The client under test talks to `ScriptedSocket`, which
hands every byte it writes to `Server.feed()` and serves `recv()` from the server's output
buffer according to a segmentation plan.
"""
from __future__ import annotations

import base64
import hashlib
import random
import re
import socket
import ssl

CRLF = b"\r\n"

SCRIPT_VERBS = {"HAVESPACE", "LISTSCRIPTS", "GETSCRIPT", "PUTSCRIPT", "CHECKSCRIPT",
                "DELETESCRIPT", "RENAMESCRIPT", "SETACTIVE"}
ALL_VERBS = SCRIPT_VERBS | {"AUTHENTICATE", "STARTTLS", "LOGOUT", "CAPABILITY", "NOOP",
                            "UNAUTHENTICATE"}


# ---------------------------------------------------------------------------
# event log
# ---------------------------------------------------------------------------
class Wire:
    def __init__(self):
        self.events = []  # (seq, channel, kind, payload)
        self.chan = "plain"

    def log(self, kind, payload=b""):
        self.events.append((len(self.events), self.chan, kind, payload))

    def sent(self, chan=None):
        return b"".join(e[3] for e in self.events
                        if e[2] == "send" and (chan is None or e[1] == chan))

    def mark(self):
        return len(self.events)

    def sent_since(self, mark):
        return b"".join(e[3] for e in self.events[mark:] if e[2] == "send")

    def recv_since(self, mark):
        return b"".join(e[3] for e in self.events[mark:] if e[2] == "recv")


# ---------------------------------------------------------------------------
# segmentation plans
# ---------------------------------------------------------------------------
class Seg:
    """Decides how many of the available bytes one recv() returns."""

    def __init__(self, cuts=None, cap=None, rng=None, k=None):
        self.cuts = sorted(cuts) if cuts else None  # absolute offsets in the s->c stream
        self.cap = cap
        self.rng = rng
        self.offset = 0

    def take(self, want, avail):
        n = min(want, avail)
        if self.cap:
            n = min(n, self.cap)
        if self.cuts:
            for c in self.cuts:
                if c > self.offset:
                    n = min(n, c - self.offset)
                    break
        if self.rng is not None and n > 1:
            n = self.rng.randint(1, n)
        n = max(1, n)
        self.offset += n
        return n

    def describe(self):
        if self.cuts:
            return "cuts=%s" % (self.cuts,)
        if self.cap:
            return "cap=%d" % self.cap
        if self.rng is not None:
            return "random"
        return "whole"


# ---------------------------------------------------------------------------
# transport
# ---------------------------------------------------------------------------
class ScriptedSocket:
    def __init__(self, server, wire: Wire, seg: Seg = None):
        self.server = server
        self.wire = wire
        self.seg = seg or Seg()
        self.closed = False
        self.timeout = None
        self.send_fault = None
        self.seconds_per_recv = 0.0
        server.on_connect()

    # -- socket API used by the client
    def settimeout(self, t):
        self.timeout = t
        self.wire.log("settimeout", repr(t).encode())

    def sendall(self, data):
        if self.closed:
            raise OSError("socket closed")
        data = bytes(data)
        if self.send_fault is not None:
            # transport fault: k octets leave, then the write times out (one shot)
            k, exc = self.send_fault
            self.send_fault = None
            part = data[:max(0, min(k, len(data) - 1))]
            self.wire.log("send", part)
            self.server.feed(part, self.wire.chan)
            self.wire.log("send-fault", exc.encode())
            if exc == "SSLError":
                raise ssl.SSLError("The write operation timed out")
            raise socket.timeout("timed out")
        self.wire.log("send", data)
        self.server.feed(data, self.wire.chan)

    send = sendall

    def recv(self, n):
        if self.closed:
            raise OSError("socket closed")
        buf = self.server.out
        if not buf:
            if self.server.eof:
                self.wire.log("recv-eof")
                return b""
            self.wire.log("recv-timeout")
            raise socket.timeout("timed out")
        k = self.seg.take(n, len(buf))
        chunk = bytes(buf[:k])
        del buf[:k]
        self.wire.log("recv", chunk)
        if self.seconds_per_recv:
            let_time_pass(self.seconds_per_recv)  # below any socket time-out, every time
        return chunk

    def close(self):
        self.closed = True
        self.wire.log("close")

    def pending(self):
        return bytes(self.server.out)


class TLSSocket(ssl.SSLSocket):
    """What FakeTLSContext.wrap_socket returns: same transport, TLS channel flag.  It IS an
    ssl.SSLSocket for isinstance(), and behaves like one: data arrives in records (one per
    segment of the delivery plan); recv(n) hands out at most n octets of the current record
    and pending() tells how many decrypted octets of it are left."""

    def __init__(self, inner: ScriptedSocket):
        self.inner = inner
        self._rec = bytearray()
        inner.wire.chan = "tls"
        inner.wire.log("tls-established")
        inner.server.on_tls()

    def settimeout(self, t):
        self.inner.settimeout(t)

    def sendall(self, data):
        self.inner.sendall(data)

    send = sendall

    def recv(self, n):
        if not self._rec:
            rec = self.inner.recv(16384)
            if not rec:
                return b""
            self._rec += rec
        out = bytes(self._rec[:n])
        del self._rec[:n]
        return out

    def pending(self):
        return len(self._rec)

    def close(self):
        self.inner.close()

    def __del__(self):
        pass


# Virtual time: the library under test may measure time (time.monotonic / time.time are
# re-bound to these while a client call runs, rv/mslab.py); the transport lets time pass
# WITHOUT any recv() timing out - a slow but steady link, a long TLS handshake, an idle
# period between two sessions.
VCLOCK = {"offset": 0.0}


def let_time_pass(seconds):
    VCLOCK["offset"] += seconds


class FakeTLSContext:
    handshake_seconds = 0.0

    def __init__(self, outcome="ok"):
        self.outcome = outcome

    def load_cert_chain(self, *a, **kw):
        pass

    def wrap_socket(self, sock, server_hostname=None, **kw):
        inner = sock.inner if isinstance(sock, TLSSocket) else sock
        inner.wire.log("tls-handshake", (server_hostname or "").encode())
        let_time_pass(self.handshake_seconds)
        if self.outcome == "ok":
            return TLSSocket(inner)
        if self.outcome == "SSLError":
            raise ssl.SSLError("handshake failure")
        if self.outcome == "SSLCertVerificationError":
            raise ssl.SSLCertVerificationError("certificate verify failed")
        raise OSError("connection reset during handshake")


# ---------------------------------------------------------------------------
# encoders
# ---------------------------------------------------------------------------
def quoted(b: bytes) -> bytes:
    return b'"' + b.replace(b"\\", b"\\\\").replace(b'"', b'\\"') + b'"'


def literal(b: bytes) -> bytes:
    return b"{%d}\r\n" % len(b) + b


def can_quote(b: bytes) -> bool:
    return not any(c in b for c in (b"\r", b"\n", b"\x00")) and len(b) <= 1024


def enc_string(b: bytes, how: str) -> bytes:
    if how == "quoted" and can_quote(b):
        return quoted(b)
    return literal(b)


def status(kind: str, code: bytes = None, text: bytes = None, how="quoted") -> bytes:
    out = kind.encode()
    if code is not None:
        out += b" (" + code + b")"
    if text is not None:
        out += b" " + enc_string(text, how)
    return out + CRLF


# ---------------------------------------------------------------------------
# strict command parser (RFC 5804 section 4)
# ---------------------------------------------------------------------------
class ParseIssue(Exception):
    pass


_VERB = re.compile(rb"[A-Za-z]+")
_NUM = re.compile(rb"[0-9]+")
_LIT = re.compile(rb"\{([0-9]+)(\+?)\}\r\n")


def parse_args(buf: bytes, pos: int):
    """Parse `*(SP arg) CRLF` from buf[pos:].
    -> ('incomplete',) | ('ok', args, newpos) | raises ParseIssue.
    args: list of ('str', bytes, form) | ('num', int)"""
    args = []
    n = len(buf)
    while True:
        if pos >= n:
            return ("incomplete",)
        if buf[pos:pos + 2] == CRLF:
            return ("ok", args, pos + 2)
        if buf[pos:pos + 1] == b"\r" and pos + 1 >= n:
            return ("incomplete",)
        if buf[pos:pos + 1] != b" ":
            raise ParseIssue("expected SP or CRLF at offset %d: %r" % (pos, buf[pos:pos + 20]))
        pos += 1
        if pos >= n:
            return ("incomplete",)
        c = buf[pos:pos + 1]
        if c == b'"':
            j = pos + 1
            out = bytearray()
            while True:
                if j >= n:
                    if b"\r" in buf[pos:] or b"\n" in buf[pos:]:
                        raise ParseIssue("CR/LF inside quoted string")
                    return ("incomplete",)
                d = buf[j:j + 1]
                if d == b"\\":
                    if j + 1 >= n:
                        return ("incomplete",)
                    e = buf[j + 1:j + 2]
                    if e not in (b"\\", b'"'):
                        raise ParseIssue("bad escape \\%r in quoted string" % e)
                    out += e
                    j += 2
                    continue
                if d == b'"':
                    break
                if d in (b"\r", b"\n", b"\x00"):
                    raise ParseIssue("CR/LF/NUL inside quoted string")
                out += d
                j += 1
            # RFC 5804: quoted = DQUOTE *1024QUOTED-CHAR DQUOTE.  Read in the way most
            # favourable to the sender: at most 1024 characters after unescaping
            if len(out) > 1024 and len(bytes(out).decode("utf-8", "replace")) > 1024:
                raise ParseIssue("quoted string longer than 1024 characters")
            args.append(("str", bytes(out), "quoted"))
            pos = j + 1
            continue
        if c == b"{":
            m = _LIT.match(buf, pos)
            if not m:
                if b"\r\n" not in buf[pos:pos + 32] and n - pos < 32:
                    return ("incomplete",)
                raise ParseIssue("malformed literal %r" % buf[pos:pos + 16])
            if m.group(2) != b"+":
                raise ParseIssue("synchronizing literal {n} sent by client")
            ln = int(m.group(1))
            s = m.end()
            if s + ln > n:
                return ("incomplete",)
            args.append(("str", buf[s:s + ln], "literal"))
            pos = s + ln
            continue
        m = _NUM.match(buf, pos)
        if m:
            if m.end() >= n:
                return ("incomplete",)
            args.append(("num", int(m.group(0))))
            pos = m.end()
            continue
        raise ParseIssue("unexpected argument start %r" % buf[pos:pos + 16])


def parse_command(buf: bytes):
    """-> ('incomplete',) | ('ok', verb, args, consumed) | ('bad', reason, consumed)"""
    m = _VERB.match(buf)
    if not m:
        if not buf:
            return ("incomplete",)
        j = buf.find(CRLF)
        return ("bad", "no verb: %r" % buf[:30], (j + 2) if j >= 0 else len(buf))
    if m.end() >= len(buf):
        return ("incomplete",)
    verb = m.group(0).decode().upper()
    try:
        r = parse_args(buf, m.end())
    except ParseIssue as e:
        j = buf.find(CRLF)
        return ("bad", "%s: %s" % (verb, e), (j + 2) if j >= 0 else len(buf))
    if r[0] == "incomplete":
        return r
    return ("ok", verb, r[1], r[2])


def parse_all(data: bytes):
    """Parse a complete byte string as a sequence of commands (C08 oracle).
    -> (list of (verb, args), leftover bytes, issues)"""
    cmds, issues = [], []
    pos = 0
    while pos < len(data):
        r = parse_command(data[pos:])
        if r[0] == "incomplete":
            break
        if r[0] == "bad":
            issues.append(r[1])
            pos += r[2]
            continue
        cmds.append((r[1], r[2]))
        pos += r[3]
    return cmds, data[pos:], issues


# ---------------------------------------------------------------------------
# the server model
# ---------------------------------------------------------------------------
class Server:
    """Reference RFC 5804 server.  Modes:
       * model mode (default): stateful store, real replies
       * canned mode: `script` is a list of reply byte strings, one per command
    """

    def __init__(self, rng=None, caps=None, post_tls_caps=None, version=True, starttls=True,
                 sasl=("PLAIN",), users=None, scripts=None, active=None, quota=100000,
                 encodings="mixed", canned=None, faults=None, greeting=True,
                 greeting_status=b'OK "ready"\r\n', digest_realm=b"example.org"):
        self.rng = rng or random.Random(0)
        # realm offered in the DIGEST-MD5 challenge: bytes, b"" (empty directive) or None (no
        # realm directive at all - RFC 2831 allows it)
        self.digest_realm = digest_realm
        self.version = version
        self.starttls_cap = starttls
        self.sasl = list(sasl) if sasl is not None else None
        self.post_tls_sasl = post_tls_caps
        self.injected_sasl = ("LOGIN",)
        # RFC 5804 ABNF literals are case-insensitive: a server may write the marker of the
        # active script as ACTIVE, active, Active
        self.active_marker = b"ACTIVE"
        self.lookalike_texts = False
        self.digest_shuffle = False
        self.users = users or {}
        self.scripts = dict(scripts or {})  # name(bytes) -> content(bytes), ordered
        self.active = active
        self.quota = quota
        self.encodings = encodings
        self.canned = list(canned) if canned is not None else None
        self.faults = dict(faults or {})  # command index -> fault spec
        self.greeting = greeting
        self.greeting_status = greeting_status
        self.out = bytearray()
        self.inbuf = bytearray()
        self.eof = False
        self.tls = False
        self.authenticated = False
        self.auth_user = None
        self.sasl_state = None
        self.violations = []
        self.commands = []  # (index, verb, args, channel, authenticated-at-that-time)
        self.ncmd = 0
        self.caps_sent_after_tls = False
        self.log = []
        self.starttls_pending = False
        self.last_status = None  # (kind, code, text) of the last final reply
        self.status_log = []

    # -- helpers
    def how(self):
        if self.encodings == "mixed":
            return self.rng.choice(["quoted", "literal"])
        return self.encodings

    def emit(self, b):
        self.out += b

    # human-readable texts that look like protocol lines, sent as literals (RFC 5804 lets a
    # server word and encode its texts as it likes)
    LOOKALIKE_TEXTS = [b"OK, all fine", b'OK "fake"', b"OK", b"NO such luck", b'NO (X) "y"', b"BYE",
                       b"OK\r\nOK", b'"SASL" "PLAIN"', b"{3}",
                       # human-readable text in a legacy charset (not valid UTF-8)
                       b"Acc\xe8s refus\xe9", b"\xff\xfe denied", b"caf\xe9"]

    # response codes whose string parameter needs an escape-aware reader (RFC 5804 lets any
    # reply carry a code; unknown ones are to be ignored)
    LOOKALIKE_CODES = [b'X-MOTD "the \\"new\\" server\\""', b'TAG "a)b"', b'TAG "q\\"q"',
                       b'X-NOTE "(x"', b'TAG "\\\\"', b'X-NOTE "a \\" ) {3}"']

    forced_code = forced_text = None  # a check may pin the code / text of every reply

    def _lookalike_code(self, code):
        if code is None and self.forced_code is not None:
            return self.forced_code
        if code is None and self.rng.random() < 0.3:
            return self.rng.choice(self.LOOKALIKE_CODES)
        return code

    def _lookalike(self):
        if self.forced_text is not None:
            return self.forced_text
        if self.rng.random() < 0.6:
            return self.rng.choice(self.LOOKALIKE_TEXTS)
        from . import textgen  # W-TEXT: texts from broad character classes
        return textgen.text(self.rng, 0, 8).encode("utf-8")

    def final(self, kind, code=None, text=None):
        how = self.how()
        if self.lookalike_texts:
            text = self._lookalike()
            how = "literal"
            code = self._lookalike_code(code)
        self.last_status = (kind, code, text)
        self.status_log.append((self.ncmd, kind, code, text))
        self.emit(status(kind, code, text, how))

    def cap_lines(self):
        out = b'"IMPLEMENTATION" "R-MS reference"\r\n'
        sasl = self.sasl
        if self.tls and self.post_tls_sasl is not None:
            sasl = self.post_tls_sasl
        if sasl == "absent":
            sasl = None  # no SASL capability line at all in this listing
        if sasl is not None:
            out += b'"SASL" ' + quoted(" ".join(sasl).encode()) + CRLF
        out += b'"SIEVE" "fileinto vacation"\r\n'
        if self.starttls_cap and not self.tls:
            out += b'"STARTTLS"\r\n'
        if self.version:
            out += b'"VERSION" "1.0"\r\n'
        return out

    def on_connect(self):
        if self.greeting:
            f = self.faults.get("greeting")
            if f == "silence":
                return
            if f == "eof":
                self.eof = True
                return
            if f == "malformed":
                self.emit(b"HELLO THERE\r\n")
                return
            if f == "BYE":
                self.emit(b'BYE "too busy"\r\n')
                return
            if f == "NO":
                self.emit(b'NO "go away"\r\n')
                return
            self.emit(self.cap_lines())
            if self.lookalike_texts:
                self.emit(status("OK", self._lookalike_code(None), self._lookalike(), "literal"))
            else:
                self.emit(self.greeting_status)

    def on_tls(self):
        self.tls = True
        f = self.faults.get("post-tls-caps")
        if f == "silence":
            return
        if f == "eof":
            self.eof = True
            return
        if f == "malformed":
            self.emit(b"GARBAGE\r\n")
            return
        if f == "BYE":
            self.emit(b'BYE "tls trouble"\r\n')
            return
        if f == "NO":
            self.emit(b'NO "tls trouble"\r\n')
            return
        self.emit(self.cap_lines())
        if self.lookalike_texts:
            # the text names the handshake so that the trace checks still find this reply
            self.emit(status("OK", self._lookalike_code(None), b"OK TLS negotiation successful.",
                             "literal"))
        else:
            self.emit(b'OK "TLS negotiation successful."\r\n')
        self.caps_sent_after_tls = True

    def violation(self, what):
        self.violations.append(what)

    # -- input
    def feed(self, data, chan):
        self.inbuf += data
        while True:
            if self.sasl_state is not None:
                if not self._sasl_continue(chan):
                    return
                continue
            r = parse_command(bytes(self.inbuf))
            if r[0] == "incomplete":
                return
            if r[0] == "bad":
                self.violation("malformed command: %s" % r[1])
                del self.inbuf[:r[2]]
                self.ncmd += 1
                self.final("NO", None, b"parse error")
                continue
            _, verb, args, used = r
            del self.inbuf[:used]
            self.handle(verb, args, chan)

    # -- command handling
    def handle(self, verb, args, chan):
        idx = self.ncmd
        self.ncmd += 1
        self.commands.append((idx, verb, args, chan, self.authenticated))
        if verb not in ALL_VERBS:
            self.violation("unknown verb %s" % verb)
            self.final("NO", None, b"unknown command")
            return
        if verb in SCRIPT_VERBS and not self.authenticated:
            self.violation("%s before successful AUTHENTICATE" % verb)
        if verb == "AUTHENTICATE" and self.starttls_cap and False:
            pass
        fault = self.faults.get(idx, self.faults.get(verb))
        if isinstance(fault, (list, tuple)):
            # per-verb occurrence list
            fault = fault.pop(0) if fault else None
        if fault is not None:
            if self._apply_fault(fault, verb):
                return
        if self.canned is not None:
            if self.canned:
                rep = self.canned.pop(0)
                self.emit(rep)
                if getattr(self, "eof_after_canned", False):
                    self.eof = True  # the peer closes once this reply is delivered
                m = re.search(rb"(?:^|\r\n)(OK|NO|BYE)", rep)
            else:
                self.violation("more commands than canned replies: %s" % verb)
            if verb == "AUTHENTICATE":
                self.authenticated = True
            return
        getattr(self, "do_" + verb.lower())(args)

    def _apply_fault(self, fault, verb):
        if fault == "silence":
            return True
        if fault == "eof":
            self.eof = True
            return True
        if fault == "malformed":
            self.emit(b"* WHAT\r\n")
            return True
        if fault == "NO":
            self.final("NO", None, b"refused by fault plan")
            return True
        if fault == "BYE":
            self.final("BYE", None, b"closing by fault plan")
            self.eof = True
            return True
        if isinstance(fault, bytes):
            self.emit(fault)
            return True
        return False

    def _want(self, args, *types):
        if len(args) != len(types) or any(a[0] != t for a, t in zip(args, types)):
            self.violation("bad arguments %r (wanted %r)" % (
                [a[:2] if a[0] == "num" else (a[0], a[1][:30]) for a in args], types))
            self.final("NO", None, b"bad arguments")
            return False
        return True

    def do_capability(self, args):
        if not self._want(args):
            return
        self.emit(self.cap_lines())
        self.final("OK", None, b"Capability completed.")

    def do_noop(self, args):
        self.final("OK", None, b"NOOP completed")

    def do_unauthenticate(self, args):
        self.authenticated = False
        self.final("OK")

    def do_logout(self, args):
        if not self._want(args):
            return
        self.final("OK", None, b"bye")
        self.eof = True

    def do_starttls(self, args):
        if not self._want(args):
            return
        if not self.starttls_cap or self.tls:
            self.violation("STARTTLS not available")
            self.final("NO", None, b"no TLS")
            return
        self.final("OK", None, b"Begin TLS negotiation now.")
        self.starttls_pending = True
        if self.faults.get("STARTTLS") == "OK+plaintext-listing":
            # bytes that arrive in clear text behind the OK (a man in the middle can append
            # them): a capability listing naming other mechanisms than the real, encrypted one
            self.emit(b'"IMPLEMENTATION" "injected"\r\n"SASL" '
                      + quoted(" ".join(self.injected_sasl).encode()) + CRLF
                      + b'"SIEVE" "fileinto"\r\nOK "TLS negotiation successful."\r\n')

    def do_havespace(self, args):
        if not self._want(args, "str", "num"):
            return
        if not self.authenticated:
            self.final("NO", None, b"authenticate first")
            return
        if args[1][1] > self.quota:
            self.final("NO", b"QUOTA/MAXSIZE", b"Quota exceeded")
        else:
            self.final("OK")

    def do_putscript(self, args):
        if not self._want(args, "str", "str"):
            return
        if not self.authenticated:
            self.final("NO", None, b"authenticate first")
            return
        name, content = args[0][1], args[1][1]
        if not name or b"\x00" in name:
            self.final("NO", None, b"bad name")
            return
        used = sum(len(v) for k, v in self.scripts.items() if k != name)
        if used + len(content) > self.quota:
            self.final("NO", b"QUOTA/MAXSIZE", b"Quota exceeded")
            return
        if name in self.scripts:
            self.scripts[name] = content
        else:
            self.scripts[name] = content
        self.final("OK")

    def do_checkscript(self, args):
        if not self._want(args, "str"):
            return
        if not self.authenticated:
            self.final("NO", None, b"authenticate first")
            return
        if not self.version:
            self.violation("CHECKSCRIPT sent to a server without VERSION")
        if b"INVALID" in args[0][1]:
            self.final("NO", None, b"line 1: syntax error")
        else:
            self.final("OK")

    def do_listscripts(self, args):
        if not self._want(args):
            return
        if not self.authenticated:
            self.final("NO", None, b"authenticate first")
            return
        for name in self.scripts:
            self.emit(enc_string(name, self.how()))
            if name == self.active:
                self.emit(b" " + self.active_marker)
            self.emit(CRLF)
        self.final("OK", None, b"Listscripts completed.")

    def do_setactive(self, args):
        if not self._want(args, "str"):
            return
        if not self.authenticated:
            self.final("NO", None, b"authenticate first")
            return
        name = args[0][1]
        if name == b"":
            self.active = None
            self.final("OK")
        elif name in self.scripts:
            self.active = name
            self.final("OK")
        else:
            self.final("NO", b"NONEXISTENT", b"There is no script by that name")

    def do_getscript(self, args):
        if not self._want(args, "str"):
            return
        if not self.authenticated:
            self.final("NO", None, b"authenticate first")
            return
        name = args[0][1]
        if name not in self.scripts:
            self.final("NO", b"NONEXISTENT", b"There is no script by that name")
            return
        self.emit(enc_string(self.scripts[name], self.how_script()) + CRLF)
        self.final("OK", None, b"Getscript completed.")

    def how_script(self):
        return self.how()

    def do_deletescript(self, args):
        if not self._want(args, "str"):
            return
        if not self.authenticated:
            self.final("NO", None, b"authenticate first")
            return
        name = args[0][1]
        if name not in self.scripts:
            self.final("NO", b"NONEXISTENT", b"There is no script by that name")
        elif name == self.active:
            self.final("NO", b"ACTIVE", b"You may not delete an active script")
        else:
            del self.scripts[name]
            self.final("OK")

    def do_renamescript(self, args):
        if not self._want(args, "str", "str"):
            return
        if not self.authenticated:
            self.final("NO", None, b"authenticate first")
            return
        if not self.version:
            self.violation("RENAMESCRIPT sent to a server without VERSION")
        old, new = args[0][1], args[1][1]
        if old not in self.scripts:
            self.final("NO", b"NONEXISTENT", b"There is no script by that name")
        elif new in self.scripts:
            self.final("NO", b"ALREADYEXISTS", b"A script with that name already exists")
        else:
            # keep position
            items = [(new if k == old else k, v) for k, v in self.scripts.items()]
            self.scripts = dict(items)
            if self.active == old:
                self.active = new
            self.final("OK")

    # -- SASL
    def do_authenticate(self, args):
        if not args or args[0][0] != "str" or len(args) > 2 or \
                (len(args) == 2 and args[1][0] != "str"):
            self.violation("bad AUTHENTICATE arguments")
            self.final("NO", None, b"bad arguments")
            return
        mech = args[0][1].decode("ascii", "replace").upper()
        announced = self.sasl
        if self.tls and self.post_tls_sasl is not None:
            announced = self.post_tls_sasl
        if announced == "absent":
            announced = ()
        self.log.append(("auth-attempt", mech, self.tls))
        if announced is None or mech not in announced:
            self.violation("AUTHENTICATE with mechanism %s that was not announced (%r)" % (
                mech, announced))
            self.final("NO", None, b"unsupported mechanism")
            return
        init = args[1][1] if len(args) == 2 else None
        self.sasl_state = {"mech": mech, "step": 0, "data": []}
        if mech in ("PLAIN", "OAUTHBEARER"):
            if init is None:
                self.emit(b'""' + CRLF)
                self.sasl_state["step"] = 1
            else:
                self.sasl_state["data"].append(init)
                self._sasl_finish()
        elif mech == "LOGIN":
            if init is not None:
                self.sasl_state["data"].append(init)
            self.emit(quoted(base64.b64encode(b"Username:")) + CRLF)
        elif mech == "DIGEST-MD5":
            nonce = b"OA6MG9tEQGm2hh"
            self.sasl_state["nonce"] = nonce
            # RFC 2831 fixes no order of the directives; qop may offer several values
            parts = [b'nonce="' + nonce + b'"', self.rng.choice([b'qop="auth"', b'qop="auth,auth-int"']),
                     b"algorithm=md5-sess", b"charset=utf-8"]
            if self.rng.random() < 0.3:
                parts.append(b"maxbuf=65536")
            if self.digest_realm is not None:
                parts.append(b'realm="' + self.digest_realm + b'"')
            if self.digest_shuffle:
                self.rng.shuffle(parts)
            else:
                parts = ([parts[-1]] if self.digest_realm is not None else []) + parts[:4]
            ch = b",".join(parts)
            self.sasl_state["realm"] = self.digest_realm
            self.emit(quoted(base64.b64encode(ch)) + CRLF)
        else:
            self.sasl_state = None
            self.final("NO", None, b"mechanism not implemented by the model")

    def _sasl_continue(self, chan):
        """Consume one continuation line; False if more input is needed."""
        buf = bytes(self.inbuf)
        try:
            r = parse_args(b" " + buf, 0)
        except ParseIssue as e:
            j = buf.find(CRLF)
            self.violation("malformed SASL continuation: %s" % e)
            del self.inbuf[:(j + 2) if j >= 0 else len(buf)]
            self.sasl_state = None
            self.final("NO", None, b"bad SASL line")
            return True
        if r[0] == "incomplete":
            return False
        args, used = r[1], r[2] - 1
        del self.inbuf[:used]
        if len(args) != 1 or args[0][0] != "str":
            self.violation("SASL continuation is not a single string: %r" % (args,))
            self.sasl_state = None
            self.final("NO", None, b"bad SASL line")
            return True
        st = self.sasl_state
        st["data"].append(args[0][1])
        mech = st["mech"]
        if mech in ("PLAIN", "OAUTHBEARER"):
            self._sasl_finish()
        elif mech == "LOGIN":
            if len(st["data"]) == 1:
                self.emit(quoted(base64.b64encode(b"Password:")) + CRLF)
            else:
                self._sasl_finish()
        elif mech == "DIGEST-MD5":
            if len(st["data"]) == 1:
                ok = self._digest_verify(st["data"][0])
                st["ok"] = ok
                if not ok:
                    self._sasl_finish()
                else:
                    self.emit(quoted(base64.b64encode(b"rspauth=" + st["rspauth"])) + CRLF)
            else:
                self._sasl_finish()
        return True

    def _b64(self, b):
        try:
            return base64.b64decode(b, validate=True)
        except Exception:
            self.violation("SASL payload is not valid base64: %r" % b[:40])
            return None

    def _sasl_finish(self):
        st = self.sasl_state
        self.sasl_state = None
        mech = st["mech"]
        creds = None
        if mech == "PLAIN":
            raw = self._b64(st["data"][0])
            if raw is not None:
                parts = raw.split(b"\x00")
                if len(parts) == 3:
                    creds = {"authzid": parts[0], "login": parts[1], "password": parts[2]}
                else:
                    self.violation("PLAIN payload does not have 3 NUL-separated fields")
        elif mech == "LOGIN":
            a, b = self._b64(st["data"][0]), self._b64(st["data"][1])
            if a is not None and b is not None:
                creds = {"login": a, "password": b, "authzid": b""}
        elif mech == "OAUTHBEARER":
            raw = self._b64(st["data"][0])
            if raw is not None:
                creds = parse_oauthbearer(raw)
                if creds is None:
                    self.violation("OAUTHBEARER payload malformed: %r" % raw[:80])
        elif mech == "DIGEST-MD5":
            creds = st.get("creds")
        self.log.append(("auth-creds", mech, creds))
        f = self.faults.get("auth-verdict")
        if f == "NO":
            self.final("NO", None, b"Authentication failed.")
            return
        if f == "BYE":
            self.final("BYE", None, b"too many attempts")
            self.eof = True
            return
        ok = False
        if creds is not None:
            want = self.users.get(creds["login"])
            ok = want is not None and want == creds["password"]
            if mech == "DIGEST-MD5":
                ok = bool(st.get("ok"))
        if ok:
            self.authenticated = True
            self.auth_user = creds["login"]
            self.final("OK", None, b"Logged in.")
        else:
            self.final("NO", None, b"Authentication failed.")

    def _digest_verify(self, resp_b64):
        raw = self._b64(resp_b64)
        if raw is None:
            return False
        d = parse_digest_directives(raw)
        if d is None:
            self.violation("DIGEST-MD5 response malformed: %r" % raw[:80])
            return False
        st = self.sasl_state
        user = d.get(b"username")
        pw = self.users.get(user)
        st["creds"] = {"login": user, "password": pw or b"", "authzid": d.get(b"authzid", b"")}
        need = (b"username", b"nonce", b"cnonce", b"nc", b"digest-uri", b"response")
        if any(k not in d for k in need) or pw is None:
            self.violation("DIGEST-MD5 response lacks directives: %r" % sorted(d))
            return False
        if d[b"nonce"] != st["nonce"]:
            self.violation("DIGEST-MD5 nonce mismatch")
            return False
        realm = d.get(b"realm", b"")
        # RFC 2831 2.1.2: the response names one of the realms offered; with none offered the
        # directive is missing or empty (the account lives in no other realm)
        if realm != (st.get("realm") or b""):
            self.log.append(("digest-realm-not-offered", realm, st.get("realm")))
            return False
        a1 = hashlib.md5(user + b":" + realm + b":" + pw).digest() + b":" + d[b"nonce"] + \
            b":" + d[b"cnonce"]
        if b"authzid" in d:
            a1 += b":" + d[b"authzid"]
        ha1 = hashlib.md5(a1).hexdigest().encode()

        def resp(a2):
            return hashlib.md5(ha1 + b":" + d[b"nonce"] + b":" + d[b"nc"] + b":" + d[b"cnonce"]
                               + b":" + d.get(b"qop", b"auth") + b":"
                               + hashlib.md5(a2).hexdigest().encode()).hexdigest().encode()
        good = resp(b"AUTHENTICATE:" + d[b"digest-uri"])
        st["rspauth"] = resp(b":" + d[b"digest-uri"])
        if d[b"response"] != good:
            self.log.append(("digest-response-mismatch",))
            return False
        return True


def parse_oauthbearer(raw: bytes):
    """RFC 7628: gs2-header kvsep *kvpair kvsep ; -> creds or None"""
    parts = raw.split(b"\x01")
    if len(parts) < 3 or parts[-1] != b"" or parts[-2] != b"":
        return None
    gs2 = parts[0]
    m = re.match(rb"^(?:n|y|p=[^,]*),(?:a=([^,]*))?,$", gs2)
    if not m:
        return None
    a = m.group(1) or b""
    if re.search(rb"=(?!2C|3D)", a):
        return None
    authzid = a.replace(b"=2C", b",").replace(b"=3D", b"=")
    kv = {}
    for p in parts[1:-2]:
        if b"=" not in p:
            return None
        k, v = p.split(b"=", 1)
        kv[k] = v
    auth = kv.get(b"auth")
    if auth is None or not auth.startswith(b"Bearer "):
        return None
    return {"login": authzid, "password": auth[7:], "authzid": authzid, "kv": kv}


def parse_digest_directives(raw: bytes):
    out = {}
    i = 0
    n = len(raw)
    while i < n:
        m = re.compile(rb'\s*([A-Za-z-]+)=').match(raw, i)
        if not m:
            return None
        k = m.group(1).lower()
        i = m.end()
        if raw[i:i + 1] == b'"':
            j = i + 1
            v = bytearray()
            while j < n and raw[j:j + 1] != b'"':
                if raw[j:j + 1] == b"\\" and j + 1 < n:
                    j += 1
                v += raw[j:j + 1]
                j += 1
            if j >= n:
                return None
            out[k] = bytes(v)
            i = j + 1
        else:
            j = raw.find(b",", i)
            if j < 0:
                j = n
            out[k] = raw[i:j]
            i = j
        if i < n:
            if raw[i:i + 1] != b",":
                return None
            i += 1
    return out
