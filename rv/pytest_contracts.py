"""pytest plugin (DESIGN.md §8.0): run the repository's own tests with the C02 parse
contracts, the C12 FiltersSet class invariants and the step monitor installed.

  cd /repo && PYTHONPATH=/verif /venv/bin/python -m pytest -q -p no:cacheprovider -p rv.pytest_contracts
"""
import os

os.environ.setdefault("VERIF_REPO", os.getcwd())


def pytest_configure(config):
    from rv import contracts, core
    from rv.checks import c12
    core.pin_repo()
    contracts.install_parser_contracts()
    c12.install()
    core.STEPS.install()
    core.STEPS.start(1 << 60)
    config._rv = (contracts, c12)


def pytest_unconfigure(config):
    contracts, c12 = config._rv
    fired = contracts.take_fired() + list(c12.INV["fired"])
    print("\n[rv] contract evaluations: %s" % dict(sorted(contracts.EVALS.items())))
    print("[rv] contract firings: %d %s" % (len(fired), fired[:10]))
    if fired:
        raise SystemExit("rv contracts fired while running the repository's tests")
