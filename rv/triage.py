"""Developer aid: print sig -> count + smallest witness of the last run."""
import json, sys, glob, os
pid = sys.argv[1]
width = int(sys.argv[2]) if len(sys.argv) > 2 else 300
root = os.path.dirname(os.path.dirname(os.path.abspath(__file__)))
ev = json.load(open(os.path.join(root, "evidence", pid + ".json")))
counts = ev["coverage"]["violation_signatures"]
def show(x):
    if isinstance(x, dict) and ("bytes" in x or "bytes_latin1" in x):
        return repr((x.get("bytes") or x.get("bytes_latin1")))
    if isinstance(x, dict):
        return "{" + ", ".join("%s: %s" % (k, show(v)) for k, v in x.items()) + "}"
    return json.dumps(x)
for p in sorted(glob.glob(os.path.join(root, "replays", pid, "*.json"))):
    r = json.load(open(p))
    s = json.dumps(r["sig"], sort_keys=True)
    if len(sys.argv) > 3 and sys.argv[3] in s:
        continue
    print(counts.get(s, "?"), s)
    print("      ", show(r["witness"])[:width])
