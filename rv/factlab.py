"""Filter-factory lab: R-LIST reference model, history runner, rendering oracle."""
from __future__ import annotations

import copy
import random

from . import core, rsieve, filtgen
from . import parserlab as lab

core.pin_repo()
from sievelib import factory as sl_factory  # noqa: E402

FiltersSet = sl_factory.FiltersSet
FilterAlreadyExists = sl_factory.FilterAlreadyExists


class ModelFilter:
    __slots__ = ("name", "d", "enabled", "description")

    def __init__(self, name, d, enabled=True, description=None):
        self.name, self.d, self.enabled, self.description = name, d, enabled, description


class RList:
    """Ordered list of uniquely named filters — the reference model (R-LIST)."""

    def __init__(self):
        self.f = []

    def idx(self, name):
        for i, x in enumerate(self.f):
            if x.name == name:
                return i
        return -1

    def names(self):
        return [x.name for x in self.f]

    # each op returns ('ret', value) or ('exc', 'FilterAlreadyExists')
    def add(self, name, d):
        if self.idx(name) >= 0:
            return ("exc", "FilterAlreadyExists")
        self.f.append(ModelFilter(name, d))
        return ("ret", None)

    def update(self, old, new, d):
        i = self.idx(old)
        if i < 0:
            return ("ret", False)
        if new != old and self.idx(new) >= 0:
            return ("exc", "FilterAlreadyExists")
        self.f[i].name = new
        self.f[i].d = d
        return ("ret", True)

    def replace(self, old, d, new=None, description=None):
        i = self.idx(old)
        if i < 0:
            return ("ret", False)
        if new is None:
            new = old
        if new != old and self.idx(new) >= 0:
            return ("exc", "FilterAlreadyExists")
        self.f[i].name = new
        self.f[i].d = d
        if description is not None:
            self.f[i].description = description
        return ("ret", True)

    def remove(self, name):
        i = self.idx(name)
        if i < 0:
            return ("ret", False)
        del self.f[i]
        return ("ret", True)

    def enable(self, name):
        i = self.idx(name)
        if i < 0:
            return ("ret", False)
        if self.f[i].enabled:
            return ("ret", False)  # property: nothing to do; real code returns False
        self.f[i].enabled = True
        return ("ret", True)

    def disable(self, name):
        i = self.idx(name)
        if i < 0:
            return ("ret", False)
        was = self.f[i].enabled
        self.f[i].enabled = False
        return ("ret", True if was else "either")

    def move(self, name, direction):
        i = self.idx(name)
        if i < 0:
            return ("ret", False)
        j = i - 1 if direction == "up" else i + 1
        if j < 0 or j >= len(self.f):
            return ("ret", False)
        self.f[i], self.f[j] = self.f[j], self.f[i]
        return ("ret", True)


def call(fn, *a, **kw):
    kind, val, steps = core.guarded(fn, 400000, *a, **kw)
    if kind == "ret":
        return ("ret", val)
    if kind == "exc":
        return ("exc", val[0], val[1], val[2])
    return ("hang", val)


def render(fs):
    return call(lambda: str(fs))


# ---------------------------------------------------------------------------
# history generation / execution
# ---------------------------------------------------------------------------
OPS = ["add", "add", "update", "update-rename", "replace", "remove", "enable", "disable",
       "disable", "move-up", "move-down"]


def gen_history(rng, length, vkind, names=None, cond_kinds=None, act_kinds=None,
                bytes_names=0.1):
    names = names or filtgen.NAME_POOL
    h = []
    for _ in range(length):
        op = rng.choice(OPS)
        n = rng.choice(names)
        if op == "add":
            h.append(("add", n, filtgen.gen_definition(rng, vkind, cond_kinds, act_kinds)))
        elif op == "update":
            h.append(("update", n, n, filtgen.gen_definition(rng, vkind, cond_kinds, act_kinds)))
        elif op == "update-rename":
            h.append(("update", n, rng.choice(names),
                      filtgen.gen_definition(rng, vkind, cond_kinds, act_kinds)))
        elif op == "replace":
            h.append(("replace", n, rng.choice(names), rng.choice([None] + list(names)),
                      rng.choice(filtgen.DESCS)))
        elif op == "remove":
            h.append(("remove", n))
        elif op == "enable":
            h.append(("enable", n))
        elif op == "disable":
            h.append(("disable", n))
        elif op == "move-up":
            h.append(("move", n, "up"))
        else:
            h.append(("move", n, "down"))
        if rng.random() < bytes_names:
            h[-1] = bytes_twin(h[-1])
        if rng.random() < 0.08:
            # an addfilter the builder refuses (a tag the action does not take): it raises,
            # and nothing about the set - its require line included - may have changed
            d = filtgen.Definition()
            d.conditions = [("Subject", ":is", "x")]
            d.actions = [rng.choice([("redirect", ":create", "a@example.org"),
                                     ("fileinto", ":seconds", "F")])]
            d.kinds = ["refused-by-the-builder"]
            h.append(("add", rng.choice(names), d))
    return h


def _m(n):
    """model-side name: the API takes names as str or as UTF-8 bytes, the list is one of str"""
    return n.decode("utf-8") if isinstance(n, bytes) else n


def bytes_twin(op):
    """same operation with every name passed as UTF-8 bytes"""
    def b(n):
        return n.encode("utf-8") if isinstance(n, str) else n
    k = op[0]
    if k == "add":
        return (k, b(op[1])) + tuple(op[2:])
    if k == "update":
        return (k, b(op[1]), b(op[2])) + tuple(op[3:])
    if k == "replace":
        return (k, b(op[1]), b(op[2]), b(op[3])) + tuple(op[4:])
    return (k, b(op[1])) + tuple(op[2:])


def apply_op(fs, model: RList, op):
    """Apply one op to the real set and to the model.
    -> (real outcome, model outcome, applicable?)"""
    k = op[0]
    raw = op
    op = tuple(_m(x) for x in op)
    if k == "add":
        _, n, d = op
        n_raw = raw[1]
        real = call(fs.addfilter, n_raw, copy.deepcopy(d.conditions),
                    copy.deepcopy(d.actions), d.matchtype)
        if real[0] == "exc" and real[1] != "FilterAlreadyExists":
            return real, None, False  # definition refused by the builder
        return real, model.add(n, d), True
    if k == "update":
        _, old, new, d = op
        real = call(fs.updatefilter, raw[1], raw[2], copy.deepcopy(d.conditions),
                    copy.deepcopy(d.actions), d.matchtype)
        if real[0] == "exc" and real[1] != "FilterAlreadyExists":
            return real, None, False
        return real, model.update(old, new, d), True
    if k == "replace":
        _, old, src, new, desc = op
        i = model.idx(src)
        content = call(fs.getfilter, raw[2])
        if i < 0 or content[0] != "ret" or content[1] is None:
            # replace with a content taken from a non-existing filter: skip
            return ("skip",), None, False
        real = call(fs.replacefilter, raw[1], content[1], raw[3], desc)
        return real, model.replace(old, model.f[i].d, new, desc), True
    if k == "remove":
        return call(fs.removefilter, raw[1]), model.remove(op[1]), True
    if k == "enable":
        return call(fs.enablefilter, raw[1]), model.enable(op[1]), True
    if k == "disable":
        return call(fs.disablefilter, raw[1]), model.disable(op[1]), True
    if k == "move":
        return call(fs.movefilter, raw[1], op[2]), model.move(op[1], op[2]), True
    raise ValueError(k)


def describe_op(op):
    out = []
    for x in op:
        if isinstance(x, filtgen.Definition):
            out.append({"conditions": x.conditions, "actions": x.actions,
                        "matchtype": x.matchtype})
        else:
            out.append(x)
    return out


# ---------------------------------------------------------------------------
# C06 rendering oracle
# ---------------------------------------------------------------------------
def strings_of(cmd, out):
    for a in cmd.args:
        if a.kind == "str":
            out.append(rsieve.decode_string(a.tok.text))
        elif a.kind == "list":
            out.extend(rsieve.decode_string(x) for x in a.items)
    for t in cmd.tests:
        strings_of(t, out)
    for c in cmd.block or []:
        strings_of(c, out)
    return out


def numbers_of(cmd, out):
    for a in cmd.args:
        if a.kind == "num":
            out.append(a.tok.text.decode())
    for t in cmd.tests:
        numbers_of(t, out)
    for c in cmd.block or []:
        numbers_of(c, out)
    return out


def ext_constructs(cmds, out):
    for c in cmds:
        e = rsieve.EXT_OF_COMMAND.get(c.name)
        if e:
            out.add(e)
        for a in c.args:
            if a.kind == "tag":
                e = rsieve.EXT_OF_TAG.get(a.tok.text.decode().lower())
                if e:
                    out.add(e)
        ext_constructs(c.tests, out)
        ext_constructs(c.block or [], out)
    return out


def check_rendering(text, model: RList):
    """-> list of (sig, detail) for the C06 oracles on the rendered text."""
    out = []
    data = text.encode("utf-8", "surrogatepass")
    o = lab.parse(data)
    if o.verdict() is not True:
        out.append(({"oracle": "parser-rejects-output",
                     "error": lab.error_class(o.error) if o.verdict() is False
                     else str(o.verdict())}, o.error or repr(o.exc)))
    j = rsieve.judge(data, strict=True)
    if j.v == rsieve.REJECT:
        out.append(({"oracle": "strict-judge-rejects-output",
                     "reason": j.reason.split(":")[0], "cmd": j.cmd}, repr(j)))
    lr = rsieve.lex(data)
    tree = None
    if not lr.error:
        try:
            tree = rsieve.parse_generic(lr.toks)
        except (rsieve.GrammarError, RecursionError):
            tree = None
    if tree is None:
        if not out:
            out.append(({"oracle": "output-not-generic-sieve"}, text[:200]))
        return out
    # (3) require covers every extension construct anywhere in the text
    need = ext_constructs(tree, set())
    if need:
        have = set()
        if tree and tree[0].name == "require":
            have = {s.decode("utf-8", "replace") for s in strings_of(tree[0], [])}
        miss = sorted(need - have)
        if miss:
            out.append(({"oracle": "require-incomplete", "missing": miss[0]},
                        "missing %r, require has %r" % (miss, sorted(have))))
    # (4) structure / injection
    body = [c for c in tree if c.name != "require"]
    nreq = len(tree) - len(body)
    if nreq > 1 or (nreq == 1 and tree[0].name != "require"):
        out.append(({"oracle": "structure", "what": "require-placement"}, text[:200]))
    if len(body) != len(model.f):
        out.append(({"oracle": "structure", "what": "filter-count"},
                    "%d commands for %d filters" % (len(body), len(model.f))))
        return out
    for c, mf in zip(body, model.f):
        bad = check_filter_structure(c, mf)
        if bad:
            out.append(({"oracle": "structure", "what": bad[0]}, "%s in filter %r: %s" % (
                bad[0], mf.name, bad[1])))
            break
    return out


def check_filter_structure(c, mf):
    d = mf.d
    if c.name != "if" or c.block is None:
        return ("filter-is-not-if", c.name)
    if not mf.enabled:
        if not (len(c.tests) == 1 and c.tests[0].name == "false" and not c.tests[0].args
                and len(c.block) == 1):
            return ("disabled-wrapper", repr(rsieve.nf_cmd(c))[:200])
        c = c.block[0]
        if c.name != "if" or c.block is None:
            return ("disabled-inner-not-if", c.name)
    if len(c.tests) != 1 or c.tests[0].name != d.matchtype or c.args:
        return ("matchtype", repr([t.name for t in c.tests]))
    tl = c.tests[0]
    if len(tl.tests) != len(d.tests):
        return ("test-count", "%d tests for %d conditions" % (len(tl.tests), len(d.tests)))
    for t, (neg, name) in zip(tl.tests, d.tests):
        if neg:
            if t.name != "not" or len(t.tests) != 1 or t.args:
                return ("negation", t.name)
            t = t.tests[0]
        if t.name != name:
            return ("test-name", "%s for %s" % (t.name, name))
        if t.tests or t.block is not None:
            return ("test-shape", t.name)
    if len(c.block) != len(d.acts):
        return ("action-count", "%d commands for %d actions: %r" % (
            len(c.block), len(d.acts), [x.name for x in c.block]))
    for a, name in zip(c.block, d.acts):
        if a.name != name or a.tests or a.block is not None:
            return ("action-name", "%s for %s" % (a.name, name))
    got = sorted(strings_of(c, []))
    want = sorted(s.encode("utf-8", "surrogatepass") for s in d.strings)
    if got != want:
        return ("string-literals", "got %r want %r" % (got[:8], want[:8]))
    gotn = sorted(x.lower() for x in numbers_of(c, []))
    wantn = sorted(str(x).lower() for x in d.numbers)
    if gotn != wantn:
        return ("numbers", "got %r want %r" % (gotn, wantn))
    return None
