"""Shared parser workloads: shard planning + case iteration.

A shard descriptor is a small JSON dict; `cases(shard)` yields
(label, data: bytes, info: dict).  Used by C01/C02/C03/C04/C07.
"""
from __future__ import annotations

import random

from . import gen
from .core import split

VOCABS = {"full": gen.V_FULL, "small": gen.V_SMALL, "tiny": gen.V_TINY}


def plan_tok(vocab, length, pre, nshards):
    n = len(VOCABS[vocab]) ** length
    return [{"w": "tok", "vocab": vocab, "len": length, "pre": pre, "range": [s, e]}
            for s, e in split(n, nshards)]


def plan_long(tier, seed, k=None):
    k = k or (8 if tier == "quick" else 16)
    return [{"w": "long", "part": i, "of": k, "rs": seed * 611953 + 17,
             "quick": tier == "quick"} for i in range(k)]


def plan(tier, seed, want=("tok", "gen", "uses", "mut", "meta", "long"), scale=1.0,
         ncpu=16):
    shards = []
    if "long" in want:
        shards += plan_long(tier, seed)
    if "tok" in want:
        if tier == "quick":
            for L in (0, 1, 2):
                for pre in (0, 1):
                    shards += plan_tok("full", L, pre, 1)
            for pre in (0, 1):
                shards += plan_tok("full", 3, pre, 8)
            for L in (3, 4):
                shards += plan_tok("small", L, 0, 2)
            shards += plan_tok("small", 5, 0, 16)
        else:
            for L in (0, 1, 2):
                for pre in (0, 1):
                    shards += plan_tok("full", L, pre, 1)
            for pre in (0, 1):
                shards += plan_tok("full", 3, pre, 8)
            shards += plan_tok("full", 4, 1, 64)
            for L in (3, 4):
                shards += plan_tok("small", L, 0, 2)
            shards += plan_tok("small", 5, 0, 16)
            shards += plan_tok("small", 6, 0, 64)
            shards += plan_tok("tiny", 6, 0, 32)
            shards += plan_tok("tiny", 7, 0, 192)
    ngen = int((3000 if tier == "quick" else 60000) * scale)
    if "gen" in want:
        k = 16 if tier == "quick" else 48
        for i, (s, e) in enumerate(split(ngen, k)):
            shards.append({"w": "gen", "n": e - s, "rs": seed * 1000003 + i,
                           "depth": 3 if tier == "quick" else 5})
    if "uses" in want:
        names = list(gen.SPEC)
        for i, (s, e) in enumerate(split(len(names), 8)):
            shards.append({"w": "uses", "names": names[s:e], "rs": seed * 7919 + i,
                           "perm": 6 if tier == "quick" else 24})
    if "mut" in want:
        nmut = int((300 if tier == "quick" else 5000) * scale)
        k = 16 if tier == "quick" else 48
        for i, (s, e) in enumerate(split(nmut, k)):
            shards.append({"w": "mut", "n": e - s, "rs": seed * 104729 + i,
                           "cap": 400 if tier == "quick" else 1200})
    if "meta" in want:
        nmeta = int((600 if tier == "quick" else 12000) * scale)
        k = 8 if tier == "quick" else 32
        for i, (s, e) in enumerate(split(nmeta, k)):
            shards.append({"w": "meta", "n": e - s, "rs": seed * 15485863 + i})
    return shards


def cases(shard):
    w = shard["w"]
    if w == "tok":
        vocab = VOCABS[shard["vocab"]]
        pre = gen.ALL_EXT_PREAMBLE + b" " if shard["pre"] else b""
        s, e = shard["range"]
        for seq in gen.tok_sequences(vocab, shard["len"], s, e):
            yield "tok", pre + gen.join_tokens(seq), {"toks": seq}
    elif w == "gen":
        rng = random.Random(shard["rs"])
        g = gen.ScriptGen(rng, maxdepth=shard.get("depth", 3))
        g.repeat_slot = shard.get("repeat", 0)
        for i in range(shard["n"]):
            g.maxdepth = rng.choice([0, 1, 2, shard.get("depth", 3)])
            toks, exts = g.script()
            style = rng.choice(["compact", "lines", "lines"])
            if rng.random() < 0.2:
                toks = gen.recase(toks, rng.choice(["upper", "mixed"]), rng)
            yield "gen", gen.render(toks, style), {"toks": toks, "exts": exts}
    elif w == "uses":
        rng = random.Random(shard["rs"])
        for name in shard["names"]:
            sp = gen.SPEC[name]
            if sp["tests"] != 0 or name in ("require", "else"):
                continue
            for argtoks, exts in gen.exhaustive_command_uses(name, rng, shard["perm"]):
                for ctx in range(4):
                    toks = gen.wrap_use(name, argtoks, list(exts), ctx, rng)
                    yield "uses", gen.join_tokens(toks), {"toks": toks, "exts": exts,
                                                          "cmd": name}
                    if ctx == 0:
                        up = gen.recase(toks, "upper", rng)
                        yield "uses", gen.join_tokens(up), {"toks": up, "exts": exts,
                                                            "cmd": name}
                # the same use with its LAST quoted string ending in backslash-quote and no
                # quote character after it (later strings become text: blocks): not a string
                # for a correct lexer - whatever a lexer accepts here is C03/C04's business
                qi = [i for i, t in enumerate(argtoks) if t[:1] == b'"']
                if qi and not any(b'"' in t for t in argtoks[qi[-1] + 1:]):
                    alt = argtoks[:qi[-1]] + [b'"b\\"'] + argtoks[qi[-1] + 1:]
                    toks = gen.wrap_use(name, alt, list(exts), 0, rng)
                    if not any(b'"' in t for t in toks[toks.index(alt[qi[-1]]) + 1:]):
                        yield "uses", gen.join_tokens(toks), {"toks": toks, "exts": exts,
                                                              "cmd": name, "tail": True}
                # the same use cut off right after each of its tags (what follows a tag -
                # its parameter, the positional arguments - omitted): the parser accepts
                # actions left incomplete, and whatever it accepts is in C03/C04's domain
                for i, t in enumerate(argtoks):
                    if t[:1] == b":" and i + 1 < len(argtoks):
                        toks = gen.wrap_use(name, argtoks[:i + 1], list(exts), 0, rng)
                        yield "uses", gen.join_tokens(toks), {"toks": toks, "exts": exts,
                                                              "cmd": name, "cut": True}
    elif w == "mut":
        rng = random.Random(shard["rs"])
        g = gen.ScriptGen(rng, maxdepth=2, hostile=0.2, multiline=0.05)
        for i in range(shard["n"]):
            toks, exts = g.script(ncmds=rng.choice([1, 1, 2, 3]))
            if len(toks) > 60:
                continue
            for kind, pos, mt in gen.single_edits(
                    toks, gen.V_SMALL + [b"foobar", b":foobar", b"1", b"elsif", b"keep"],
                    rng, shard["cap"]):
                yield "mut", gen.join_tokens(mt), {"toks": mt, "edit": kind, "pos": pos,
                                                   "base": toks}
            for kind, pos, mt in gen.targeted_edits(toks, rng):
                yield "mut", gen.join_tokens(mt), {"toks": mt, "edit": kind, "pos": pos,
                                                   "base": toks}
    elif w == "meta":
        rng = random.Random(shard["rs"])
        g = gen.ScriptGen(rng, maxdepth=3)
        for i in range(shard["n"]):
            toks, exts = g.script()
            if rng.random() < 0.3:
                # invalid seed: one random edit, verdict must still be invariant
                edits = list(gen.single_edits(toks, gen.V_SMALL, rng, 1))
                if edits:
                    toks = edits[0][2]
            base = gen.join_tokens(toks)
            yield "meta-base", base, {"toks": toks, "group": i}
            for label, data in gen.meta_rewrites(toks, rng):
                yield "meta:" + label, data, {"toks": toks, "group": i}
    elif w == "long":
        rng = random.Random(shard["rs"])
        for i, (fam, n, toks, exts) in enumerate(gen.long_cases(rng, shard["quick"])):
            if i % shard["of"] == shard["part"]:
                yield "long", gen.join_tokens(toks), {"toks": toks, "exts": exts,
                                                      "family": fam, "n": n}
    else:
        raise ValueError(w)
