"""MANIFEST.setup_cmd: offline bootstrap of optional third-party monitors."""
import sys

from . import core


def main():
    ok = core.bootstrap_deps()
    core.pin_repo()
    try:
        import icontract  # noqa
        have = True
    except Exception:
        have = False
    print("rv setup: deps dir %s, icontract importable: %s, sys.monitoring: %s" % (
        core.DEPS, have, hasattr(sys, "monitoring")))
    return 0


if __name__ == "__main__":
    sys.exit(main())
