"""R-SIEVE: independent reference model of the Sieve language (RFC 5228 §8).

Never imports sievelib.  Three parts:
  * lexer (§8.1) over bytes with byte offset / line / column for every token
  * generic parser (§8.2) producing a generic tree
  * frozen SPEC table + three-valued judge J(script) in {ACCEPT, REJECT, UNSPEC}

The SPEC table is data written from the RFCs the README lists, not derived
from sievelib.commands, so a mutated args_definition is detected, not mirrored.
"""
from __future__ import annotations

ACCEPT, REJECT, UNSPEC = "ACCEPT", "REJECT", "UNSPEC"

WORD0 = set(b"abcdefghijklmnopqrstuvwxyzABCDEFGHIJKLMNOPQRSTUVWXYZ_")
WORD = WORD0 | set(b"0123456789")
DIGITS = set(b"0123456789")
PUNCT = {ord("["): "[", ord("]"): "]", ord("("): "(", ord(")"): ")",
         ord("{"): "{", ord("}"): "}", ord(";"): ";", ord(","): ","}


class Tok:
    __slots__ = ("kind", "text", "pos", "line", "col", "end")

    def __init__(self, kind, text, pos, line, col):
        self.kind = kind  # ident tag num str mls [ ] ( ) { } ; ,
        self.text = text  # raw bytes of the token
        self.pos = pos
        self.line = line
        self.col = col  # 1-based byte column
        self.end = pos + len(text)

    def __repr__(self):
        return "Tok(%s,%r,@%d)" % (self.kind, self.text, self.pos)


class LexError(Exception):
    def __init__(self, reason, pos):
        self.reason = reason
        self.pos = pos


class LexResult:
    __slots__ = ("toks", "error", "unspec", "comments")

    def __init__(self):
        self.toks = []
        self.error = None  # (reason, pos)
        self.unspec = []  # reasons making the lexical reading debatable
        self.comments = 0


def lex(data: bytes) -> LexResult:
    r = LexResult()
    n = len(data)
    i = 0
    line = 1
    lstart = 0  # offset of first byte of current line

    def mk(kind, s, e):
        r.toks.append(Tok(kind, data[s:e], s, line_at[0], s - lstart_at[0] + 1))

    # line/col of token start are captured before scanning the token body
    line_at = [1]
    lstart_at = [0]
    while i < n:
        c = data[i]
        if c == 10:
            line += 1
            i += 1
            lstart = i
            continue
        if c == 13:
            if i + 1 >= n or data[i + 1] != 10:
                r.unspec.append("lone-CR")
            i += 1
            continue
        if c == 32 or c == 9:
            i += 1
            continue
        if c in (0, 11, 12) or c in (0x1c, 0x1d, 0x1e, 0x1f, 0x85, 0xa0):
            r.unspec.append("odd-whitespace-byte")
            i += 1
            continue
        line_at[0] = line
        lstart_at[0] = lstart
        if c == 35:  # '#'
            j = data.find(b"\n", i)
            if j < 0:
                j = n
            k = data.find(b"\r", i, j)
            if k >= 0 and k != j - 1:
                r.unspec.append("lone-CR")
            r.comments += 1
            i = j
            continue
        if c == 47 and i + 1 < n and data[i + 1] == 42:  # '/*'
            j = data.find(b"*/", i + 2)
            if j < 0:
                r.error = ("unterminated-bracket-comment", i)
                return r
            seg = data[i:j + 2]
            nl = seg.count(b"\n")
            if nl:
                line += nl
                lstart = i + seg.rfind(b"\n") + 1
            if b"\r" in seg.replace(b"\r\n", b""):
                r.unspec.append("lone-CR")
            r.comments += 1
            i = j + 2
            continue
        if c in PUNCT:
            mk(PUNCT[c], i, i + 1)
            i += 1
            continue
        if c == 34:  # '"'
            j = i + 1
            ok = False
            while j < n:
                d = data[j]
                if d == 92:  # backslash
                    if j + 1 >= n:
                        break
                    if data[j + 1] in (10, 13):
                        # RFC 5228 8.1: "\\" may only be followed by an octet that is neither
                        # CR nor LF (quoted-special / octet-not-qspecial)
                        r.error = ("backslash-before-line-break", j)
                        return r
                    if data[j + 1] == 0:
                        r.unspec.append("NUL-in-string")
                    j += 2
                    continue
                if d == 34:
                    ok = True
                    break
                if d == 0:
                    r.unspec.append("NUL-in-string")
                j += 1
            if not ok:
                r.error = ("unterminated-string", i)
                return r
            mk("str", i, j + 1)
            seg = data[i:j + 1]
            nl = seg.count(b"\n")
            if nl:
                line += nl
                lstart = i + seg.rfind(b"\n") + 1
            if b"\r" in seg.replace(b"\r\n", b""):
                r.unspec.append("lone-CR")
            i = j + 1
            continue
        if c == 58:  # ':'
            j = i + 1
            if j < n and data[j] in WORD0:
                while j < n and data[j] in WORD:
                    j += 1
                mk("tag", i, j)
                i = j
                continue
            r.error = ("bad-token", i)
            return r
        if c in DIGITS:
            j = i
            while j < n and data[j] in DIGITS:
                j += 1
            if j < n and data[j] in b"KMGkmg":
                j += 1
            if j < n and data[j] in WORD:
                r.unspec.append("number-glued-to-word")
            mk("num", i, j)
            i = j
            continue
        if c in WORD0:
            j = i
            while j < n and data[j] in WORD:
                j += 1
            word = data[i:j]
            if j < n and data[j] == 58 and word.lower() == b"text":
                if word != b"text":
                    r.unspec.append("text:-not-lower-case")
                # multi-line literal
                k = j + 1
                while k < n and data[k] in (32, 9):
                    k += 1
                if k < n and data[k] == 35:
                    e = data.find(b"\n", k)
                    if e < 0:
                        r.error = ("unterminated-multiline", i)
                        return r
                    k = e + 1
                elif k < n and data[k] == 10:
                    k += 1
                elif k + 1 < n and data[k] == 13 and data[k + 1] == 10:
                    k += 2
                else:
                    # junk after text: on its first line (RFC: lexical error;
                    # sievelib's pattern is laxer) -> not judged
                    r.unspec.append("junk-after-text:")
                    e = data.find(b"\n", k)
                    if e < 0:
                        r.error = ("unterminated-multiline", i)
                        return r
                    k = e + 1
                # body lines
                end = -1
                while k <= n:
                    e = data.find(b"\n", k)
                    ln = data[k:e] if e >= 0 else data[k:]
                    if ln == b"." or ln == b".\r":
                        end = k + 1
                        if e < 0:
                            r.unspec.append("multiline-dot-at-eof-without-newline")
                        break
                    if e < 0:
                        break
                    k = e + 1
                if end < 0:
                    r.error = ("unterminated-multiline", i)
                    return r
                mk("mls", i, end)
                seg = data[i:end]
                if b"\r" in seg.replace(b"\r\n", b""):
                    r.unspec.append("lone-CR")
                if b"\x00" in seg:
                    r.unspec.append("NUL-in-string")
                nl = seg.count(b"\n")
                line += nl
                lstart = i + seg.rfind(b"\n") + 1
                i = end
                continue
            mk("ident", i, j)
            i = j
            continue
        r.error = ("bad-token", i)
        return r
    return r


# ---------------------------------------------------------------------------
# string decoding
# ---------------------------------------------------------------------------
def decode_quoted(raw: bytes) -> bytes:
    body = raw[1:-1]
    out = bytearray()
    i = 0
    while i < len(body):
        c = body[i]
        if c == 92 and i + 1 < len(body):
            out.append(body[i + 1])
            i += 2
        else:
            out.append(c)
            i += 1
    return bytes(out)


def decode_multiline(raw: bytes) -> bytes:
    lines = raw.split(b"\n")  # a CR before the LF stays part of the content line
    body = lines[1:-1]  # drop the "text:" line and the final "."
    out = []
    for ln in body:
        if ln.startswith(b".."):
            ln = ln[1:]
        out.append(ln)
    return b"\n".join(out) + (b"\n" if out else b"")


def decode_string(raw: bytes) -> bytes:
    if raw[:1] == b'"':
        return decode_quoted(raw)
    return decode_multiline(raw)


# ---------------------------------------------------------------------------
# generic grammar (§8.2)
# ---------------------------------------------------------------------------
class Arg:
    __slots__ = ("kind", "tok", "items", "itoks")

    def __init__(self, kind, tok, items=None, itoks=None):
        self.kind = kind  # str | num | tag | list
        self.tok = tok  # first token
        self.items = items  # list of raw bytes for 'list'
        self.itoks = itoks


class Cmd:
    __slots__ = ("name", "tok", "args", "tests", "testlist", "block", "end_tok",
                 "is_test")

    def __init__(self, tok):
        self.name = tok.text.decode("ascii").lower()
        self.tok = tok
        self.args = []
        self.tests = []
        self.testlist = False  # tests were written inside parentheses
        self.block = None
        self.end_tok = None
        self.is_test = False


class GrammarError(Exception):
    def __init__(self, reason, index):
        self.reason = reason
        self.index = index  # index of first token with no grammatical continuation


class _P:
    def __init__(self, toks, maxdepth=400):
        self.t = toks
        self.i = 0
        self.depth = 0
        self.maxdepth = maxdepth

    def peek(self):
        return self.t[self.i].kind if self.i < len(self.t) else None

    def commands(self, in_block):
        out = []
        while True:
            k = self.peek()
            if k is None:
                if in_block:
                    raise GrammarError("unclosed-block", self.i)
                return out
            if k == "}" and in_block:
                return out
            if k != "ident":
                raise GrammarError("command-expected", self.i)
            out.append(self.command())

    def command(self):
        c = Cmd(self.t[self.i])
        self.i += 1
        self.arguments(c)
        k = self.peek()
        if k == ";":
            c.end_tok = self.t[self.i]
            self.i += 1
        elif k == "{":
            self.i += 1
            self.depth += 1
            if self.depth > self.maxdepth:
                raise GrammarError("too-deep", self.i)
            c.block = self.commands(True)
            self.depth -= 1
            c.end_tok = self.t[self.i]
            self.i += 1
        else:
            raise GrammarError("semicolon-or-block-expected", self.i)
        return c

    def arguments(self, c):
        while True:
            k = self.peek()
            if k in ("str", "mls"):
                c.args.append(Arg("str", self.t[self.i]))
                self.i += 1
            elif k == "num":
                c.args.append(Arg("num", self.t[self.i]))
                self.i += 1
            elif k == "tag":
                c.args.append(Arg("tag", self.t[self.i]))
                self.i += 1
            elif k == "[":
                c.args.append(self.stringlist())
            else:
                break
        k = self.peek()
        if k == "ident":
            c.tests.append(self.test())
        elif k == "(":
            c.testlist = True
            self.i += 1
            self.depth += 1
            if self.depth > self.maxdepth:
                raise GrammarError("too-deep", self.i)
            if self.peek() != "ident":
                raise GrammarError("test-expected", self.i)
            c.tests.append(self.test())
            while self.peek() == ",":
                self.i += 1
                if self.peek() != "ident":
                    raise GrammarError("test-expected", self.i)
                c.tests.append(self.test())
            if self.peek() != ")":
                raise GrammarError("close-paren-expected", self.i)
            self.i += 1
            self.depth -= 1

    def test(self):
        self.depth += 1
        if self.depth > self.maxdepth:
            raise GrammarError("too-deep", self.i)
        c = Cmd(self.t[self.i])
        c.is_test = True
        self.i += 1
        self.arguments(c)
        self.depth -= 1
        return c

    def stringlist(self):
        first = self.t[self.i]
        self.i += 1
        items, itoks = [], []
        if self.peek() not in ("str", "mls"):
            raise GrammarError("string-expected-in-list", self.i)
        while True:
            items.append(self.t[self.i].text)
            itoks.append(self.t[self.i])
            self.i += 1
            k = self.peek()
            if k == ",":
                self.i += 1
                if self.peek() not in ("str", "mls"):
                    raise GrammarError("string-expected-in-list", self.i)
                continue
            if k == "]":
                self.i += 1
                return Arg("list", first, items, itoks)
            raise GrammarError("comma-or-bracket-expected", self.i)


def parse_generic(toks):
    """Returns list of Cmd or raises GrammarError."""
    p = _P(toks)
    cmds = p.commands(False)
    if p.i != len(toks):
        raise GrammarError("unexpected-closing", p.i)
    return cmds


# ---------------------------------------------------------------------------
# normal form shared with the walker over sievelib's tree
# ---------------------------------------------------------------------------
def nf_arg(a: Arg, decoded=False):
    if a.kind == "tag":
        return ("tag", a.tok.text.decode("ascii").lower())
    if a.kind == "num":
        return ("num", a.tok.text.decode("ascii").lower() if decoded
                else a.tok.text.decode("ascii"))
    if a.kind == "str":
        return ("str", decode_string(a.tok.text) if decoded else a.tok.text)
    return ("list", tuple(decode_string(x) if decoded else x for x in a.items))


def nf_cmd(c: Cmd, decoded=False):
    return (c.name,
            tuple(nf_arg(a, decoded) for a in c.args),
            tuple(nf_cmd(t, decoded) for t in c.tests),
            None if c.block is None else tuple(nf_cmd(x, decoded) for x in c.block))


def nf_script(cmds, decoded=False):
    return tuple(nf_cmd(c, decoded) for c in cmds)


# ---------------------------------------------------------------------------
# SPEC table (frozen data)
# ---------------------------------------------------------------------------
COMPARATOR_OK = {b"i;octet", b"i;ascii-casemap"}
COMPARATOR_UNSPEC = {b"i;ascii-numeric"}
RELATIONAL_OK = {b"gt", b"ge", b"lt", b"le", b"eq", b"ne"}

# slot -> {tag: (param type | None, extension | None)}
T_COMPARATOR = ("comparator", {":comparator": ("COMPARATOR", None)})
T_MATCH = ("match-type", {":is": (None, None), ":contains": (None, None),
                          ":matches": (None, None),
                          ":count": ("RELATIONAL", "relational"),
                          ":value": ("RELATIONAL", "relational"),
                          ":regex": (None, "regex")})
T_ADDRPART = ("address-part", {":localpart": (None, None), ":domain": (None, None),
                               ":all": (None, None)})
T_COPY = ("copy", {":copy": (None, "copy")})
T_CREATE = ("create", {":create": (None, "mailbox")})
T_FLAGS = ("flags", {":flags": ("SL", "imap4flags")})

KNOWN_EXTENSIONS = {"fileinto", "reject", "envelope", "body", "imap4flags", "date",
                    "vacation", "vacation-seconds", "variables", "copy", "mailbox",
                    "relational", "regex"}


def _c(role, pos=(), tags=(), ext=None, block=False, tests=0, follow=None,
       optfirst=False, rfc_other_tags=()):
    slots = {}
    for slot, tg in tags:
        for t, v in tg.items():
            slots[t] = (slot,) + v
    return {"role": role, "pos": tuple(pos), "tags": slots, "ext": ext,
            "block": block, "tests": tests, "follow": follow,
            "optfirst": optfirst, "rfc_other_tags": set(rfc_other_tags)}


# pos entries: 'S' string only, 'SL' string or string-list, 'N' number,
#              ('TAG', {...}) a mandatory tag (size)
# tests: 0 none, 1 exactly one test, '*' a parenthesised test list
SPEC = {
    "require": _c("control", pos=["SL"]),
    "if": _c("control", block=True, tests=1),
    "elsif": _c("control", block=True, tests=1, follow=("if", "elsif")),
    "else": _c("control", block=True, follow=("if", "elsif")),
    "stop": _c("action"),
    "keep": _c("action", tags=[T_FLAGS]),
    "discard": _c("action"),
    "fileinto": _c("action", pos=["S"], tags=[T_COPY, T_CREATE, T_FLAGS],
                   ext="fileinto", rfc_other_tags=[":specialuse", ":mailboxid"]),
    "redirect": _c("action", pos=["S"], tags=[T_COPY],
                   rfc_other_tags=[":notify", ":ret", ":bytime", ":bymode",
                                   ":bytrace", ":list"]),
    # registered by the harness at start-up (rv/parserlab.py): a command whose class derives
    # from the stock redirect's class and takes one more required string
    "redirectx": _c("action", pos=["S", "S"], tags=[T_COPY]),
    # registered by the harness as well: an include-like action whose completion callback
    # parses ANOTHER script with a Parser of its own while the outer parse is under way
    "includex": _c("action", pos=["S"]),
    "reject": _c("action", pos=["S"], ext="reject"),
    "setflag": _c("action", pos=["S", "SL"], ext="imap4flags", optfirst=True),
    "addflag": _c("action", pos=["S", "SL"], ext="imap4flags", optfirst=True),
    "removeflag": _c("action", pos=["S", "SL"], ext="imap4flags", optfirst=True),
    "vacation": _c("action", pos=["S"], ext="vacation", tags=[
        ("subject", {":subject": ("S", None)}),
        ("days", {":days": ("N", None)}),
        ("seconds", {":seconds": ("N", "vacation-seconds")}),
        ("from", {":from": ("S", None)}),
        ("addresses", {":addresses": ("SL", None)}),
        ("handle", {":handle": ("S", None)}),
        ("mime", {":mime": (None, None)}),
    ]),
    "set": _c("control", pos=["S", "S"], ext="variables",
              rfc_other_tags=[":lower", ":upper", ":lowerfirst", ":upperfirst",
                              ":quotewildcard", ":length", ":quoteregex",
                              ":encodeurl"]),
    # tests
    "address": _c("test", pos=["SL", "SL"], tags=[T_COMPARATOR, T_ADDRPART, T_MATCH],
                  rfc_other_tags=[":index", ":last", ":user", ":detail"]),
    "envelope": _c("test", pos=["SL", "SL"], tags=[T_COMPARATOR, T_ADDRPART, T_MATCH],
                   ext="envelope", rfc_other_tags=[":user", ":detail"]),
    "header": _c("test", pos=["SL", "SL"], tags=[T_COMPARATOR, T_MATCH],
                 rfc_other_tags=[":index", ":last", ":mime", ":anychild", ":type",
                                 ":subtype", ":contenttype", ":param"]),
    "exists": _c("test", pos=["SL"], rfc_other_tags=[":mime", ":anychild"]),
    "size": _c("test", pos=[("TAG", (":over", ":under")), "N"]),
    "true": _c("test"),
    "false": _c("test"),
    "not": _c("test", tests=1),
    "anyof": _c("test", tests="*"),
    "allof": _c("test", tests="*"),
    "body": _c("test", pos=["SL"], ext="body", tags=[
        T_COMPARATOR, T_MATCH,
        ("body-transform", {":raw": (None, None), ":text": (None, None),
                            ":content": ("SL", None)})]),
    "hasflag": _c("test", pos=["SL", "SL"], ext="imap4flags", optfirst=True,
                  tags=[T_COMPARATOR, T_MATCH]),
    "date": _c("test", pos=["S", "S", "SL"], ext="date", tags=[
        ("zone", {":zone": ("S", None), ":originalzone": (None, None)}),
        T_COMPARATOR, T_MATCH], rfc_other_tags=[":index", ":last"]),
    "currentdate": _c("test", pos=["S", "SL"], ext="date", tags=[
        ("zone", {":zone": ("S", None)}), T_COMPARATOR, T_MATCH]),
}

# extension table used by C07 (construct -> extension); frozen
EXT_OF_COMMAND = {k: v["ext"] for k, v in SPEC.items() if v["ext"]}
EXT_OF_TAG = {":copy": "copy", ":create": "mailbox", ":flags": "imap4flags",
              ":seconds": "vacation-seconds", ":count": "relational",
              ":value": "relational", ":regex": "regex"}

NONWORD_CMD = "foobar"
NONWORD_TAG = ":foobar"


class Verdict:
    __slots__ = ("v", "reason", "index", "unspec", "toks", "tree", "lexres", "cmd")

    def __init__(self, v, reason=None, index=None, unspec=(), toks=None, tree=None,
                 lexres=None):
        self.v = v
        self.reason = reason
        self.index = index  # token index of the first definite error (REJECT)
        self.unspec = list(unspec)
        self.toks = toks
        self.tree = tree
        self.lexres = lexres
        self.cmd = None

    def __repr__(self):
        return "Verdict(%s,%s,%s,%s)" % (self.v, self.reason, self.index, self.unspec)


class _Sem:
    def __init__(self, toks, strict=False, spec=SPEC):
        self.toks = toks
        self.tokidx = {id(t): i for i, t in enumerate(toks)}
        self.errors = []  # (token index, reason)
        self.unspec = []
        self.loaded = set()
        self.strict = strict
        self.spec = spec
        self.seen_non_require = False
        self.cur = None

    def err(self, tok, reason):
        self.errors.append((self.tokidx[id(tok)], reason, self.cur))

    def need_ext(self, ext, tok):
        if ext and ext not in self.loaded:
            self.err(tok, "EXT_NOT_LOADED:%s" % ext)

    # ---- block level
    def block(self, cmds, top):
        prev = None
        for c in cmds:
            self.command(c, prev, top)
            prev = c

    def command(self, c, prev, top):
        self.cur = c.name
        sp = self.spec.get(c.name)
        if sp is None:
            if c.name == NONWORD_CMD:
                self.err(c.tok, "UNKNOWN_COMMAND")
            else:
                self.unspec.append("identifier-outside-table:%s" % c.name)
            return
        if sp["role"] == "test":
            self.err(c.tok, "TEST_AS_COMMAND")
            return
        if c.name == "require":
            if not top or self.seen_non_require:
                self.unspec.append("require-not-at-start")
        else:
            self.seen_non_require = True
        self.need_ext(sp["ext"], c.tok)
        if sp["follow"] and (prev is None or prev.name not in sp["follow"]):
            self.err(c.tok, "MUST_FOLLOW")
        self.args(c, sp)
        self.tests(c, sp)
        self.cur = c.name
        if sp["block"]:
            if c.block is None:
                self.err(c.end_tok, "MISSING_BLOCK")
            else:
                self.block(c.block, False)
        else:
            if c.block is not None:
                # '{' is the token following the last argument/test
                self.errors.append((self._block_open_index(c), "BLOCK_AFTER_NONBLOCK", c.name))
                # still look inside for unspec-worthy constructs? no: definite error
        if c.name == "require":
            self._do_require(c)

    def _block_open_index(self, c):
        # index of '{' : first token of block is after it; search forward
        i = self.tokidx[id(c.tok)] + 1
        depth = 0
        while i < len(self.toks):
            k = self.toks[i].kind
            if k == "{" and depth == 0:
                return i
            if k in "([":
                depth += 1
            elif k in ")]":
                depth -= 1
            i += 1
        return self.tokidx[id(c.tok)]

    def _do_require(self, c):
        for a in c.args:
            vals = []
            if a.kind == "str":
                vals = [a.tok.text]
            elif a.kind == "list":
                vals = a.items
            for v in vals:
                try:
                    name = decode_string(v).decode("utf-8")
                except UnicodeDecodeError:
                    name = None
                if name in KNOWN_EXTENSIONS:
                    self.loaded.add(name)
                else:
                    self.unspec.append("unknown-extension-in-require")

    def test(self, c):
        self.cur = c.name
        sp = self.spec.get(c.name)
        if sp is None:
            if c.name == NONWORD_CMD:
                self.err(c.tok, "UNKNOWN_COMMAND")
            else:
                self.unspec.append("identifier-outside-table:%s" % c.name)
            return
        if sp["role"] != "test":
            self.err(c.tok, "NONTEST_AS_TEST")
            return
        self.need_ext(sp["ext"], c.tok)
        self.args(c, sp)
        self.tests(c, sp)

    def tests(self, c, sp):
        want = sp["tests"]
        if want == 0:
            if c.tests:
                first = c.tests[0].tok
                if c.testlist:
                    # '(' precedes the first test
                    self.errors.append((self.tokidx[id(first)] - 1, "SURPLUS_TEST", c.name))
                else:
                    self.err(first, "SURPLUS_TEST")
            return
        if not c.tests:
            self.unspec.append("omitted-test")
            if self.strict:
                self.err(c.tok, "STRICT_MISSING_TEST")
            return
        if want == 1:
            if c.testlist:
                self.errors.append(
                    (self.tokidx[id(c.tests[0].tok)] - 1, "TESTLIST_WHERE_TEST", c.name))
                return
        elif want == "*":
            if not c.testlist:
                self.err(c.tests[0].tok, "TEST_WHERE_TESTLIST")
                return
        for t in c.tests:
            self.test(t)

    # ---- arguments
    def args(self, c, sp):
        pos = list(sp["pos"])
        tags = sp["tags"]
        args = c.args
        i = 0
        n = len(args)
        seen_slots = set()
        npos_seen = 0
        positional = []  # the positional Arg objects, in order
        while i < n:
            a = args[i]
            if a.kind == "tag":
                t = a.tok.text.decode("ascii").lower()
                # mandatory-tag positional (size)
                if (len(positional) < len(pos)
                        and isinstance(pos[len(positional)], tuple)):
                    if t in pos[len(positional)][1]:
                        positional.append(a)
                        i += 1
                        continue
                    self._bad_tag(c, sp, a, t)
                    return
                if positional:
                    # tagged arguments must precede positional ones
                    if t in tags:
                        self.err(a.tok, "TAG_AFTER_POSITIONAL")
                    else:
                        self._bad_tag(c, sp, a, t)
                    return
                if t not in tags:
                    self._bad_tag(c, sp, a, t)
                    return
                slot, ptype, ext = tags[t]
                self.need_ext(ext, a.tok)
                if any(e[0] == self.tokidx[id(a.tok)] for e in self.errors):
                    return
                if slot in seen_slots:
                    self.unspec.append("repeated-tag-slot")
                seen_slots.add(slot)
                i += 1
                if ptype is None:
                    continue
                if i >= n:
                    self.unspec.append("omitted-tag-parameter")
                    if self.strict:
                        self.err(a.tok, "STRICT_MISSING_TAG_PARAMETER")
                    return
                p = args[i]
                if not self._param_ok(p, ptype):
                    return
                i += 1
                continue
            # positional
            if len(positional) >= len(pos):
                self.err(a.tok, "SURPLUS_ARGUMENT")
                return
            want = pos[len(positional)]
            if isinstance(want, tuple):
                self.err(a.tok, "ILL_TYPED_ARGUMENT")
                return
            positional.append(a)
            i += 1
        # type-check positionals (optional-first commands shift)
        want = pos
        if sp["optfirst"] and len(positional) == 1:
            want = pos[1:]
        for a, w in zip(positional, want):
            if isinstance(w, tuple):
                continue
            if not self._type_ok(a, w):
                self.err(a.tok, "ILL_TYPED_ARGUMENT")
                return
        if len(positional) < len(want):
            self.unspec.append("omitted-trailing-arguments")
            if self.strict:
                self.err(c.tok, "STRICT_MISSING_ARGUMENT")

    def _bad_tag(self, c, sp, a, t):
        if t in sp["rfc_other_tags"]:
            self.unspec.append("rfc-tag-outside-table:%s" % t)
        elif t == NONWORD_TAG or self._known_tag(t):
            self.err(a.tok, "ILLEGAL_TAG")
        else:
            self.unspec.append("tag-outside-table:%s" % t)

    def _known_tag(self, t):
        for sp in self.spec.values():
            if t in sp["tags"]:
                return True
            for p in sp["pos"]:
                if isinstance(p, tuple) and t in p[1]:
                    return True
        return False

    @staticmethod
    def _type_ok(a, w):
        if w == "S":
            return a.kind == "str"
        if w == "SL":
            return a.kind in ("str", "list")
        if w == "N":
            return a.kind == "num"
        return False

    def _param_ok(self, p, ptype):
        if ptype in ("S", "SL", "N"):
            if not self._type_ok(p, ptype):
                self.err(p.tok, "ILL_TYPED_TAG_PARAMETER")
                return False
            return True
        # COMPARATOR / RELATIONAL: a string with a constrained value
        if p.kind != "str":
            self.err(p.tok, "ILL_TYPED_TAG_PARAMETER")
            return False
        raw = p.tok.text
        val = decode_string(raw)
        ok = COMPARATOR_OK if ptype == "COMPARATOR" else RELATIONAL_OK
        canonical = raw == b'"' + val + b'"'
        if val in ok and canonical:
            return True
        if val.lower() in ok or (ptype == "COMPARATOR" and val.lower() in COMPARATOR_UNSPEC) \
                or (val in ok and not canonical):
            self.unspec.append("tag-parameter-value-variant")
            return True
        self.err(p.tok, "BAD_TAG_PARAMETER_VALUE")
        return False


def judge(data: bytes, strict=False, spec=SPEC) -> Verdict:
    try:
        data.decode("utf-8")
    except UnicodeDecodeError:
        return Verdict(UNSPEC, "encoding", None, ["not-utf-8"])
    lr = lex(data)
    if lr.unspec:
        return Verdict(UNSPEC, "lexical", None, lr.unspec, lr.toks, None, lr)
    if lr.error:
        return Verdict(REJECT, "LEX:" + lr.error[0], len(lr.toks), (), lr.toks, None, lr)
    return judge_tokens(lr.toks, strict, spec, lr)


def _beyond_guaranteed_range(text):
    digits = text.rstrip(b"KMGkmg").lstrip(b"0")
    if len(digits) > 10:
        return True
    shift = {b"k": 10, b"m": 20, b"g": 30}.get(text[-1:].lower(), 0)
    return (int(digits or b"0") << shift) > 2 ** 31 - 1


def judge_tokens(toks, strict=False, spec=SPEC, lr=None) -> Verdict:
    gerr = None
    try:
        tree = parse_generic(toks)
    except GrammarError as e:
        if e.reason == "too-deep":
            return Verdict(UNSPEC, "nesting", None, ["too-deep"], toks, None, lr)
        return Verdict(REJECT, "GRAMMAR:" + e.reason, e.index, (), toks, None, lr)
    except RecursionError:
        return Verdict(UNSPEC, "nesting", None, ["too-deep"], toks, None, lr)
    s = _Sem(toks, strict, spec)
    try:
        s.block(tree, True)
    except RecursionError:
        return Verdict(UNSPEC, "nesting", None, ["too-deep"], toks, tree, lr)
    for t in toks:
        # RFC 5228 2.4.1: only 0..2^31-1 is guaranteed; larger values MAY be an error
        if t.kind == "num" and _beyond_guaranteed_range(t.text):
            s.unspec.append("number-beyond-2^31-1")
            break
    if s.errors:
        idx, reason, cmd = min(s.errors, key=lambda e: e[0])
        v = Verdict(REJECT, reason, idx, s.unspec, toks, tree, lr)
        v.cmd = cmd
        return v
    if s.unspec and not strict:
        return Verdict(UNSPEC, "semantic", None, s.unspec, toks, tree, lr)
    if s.unspec and strict:
        # strict mode turned omissions into errors already; remaining unspec
        soft = [u for u in s.unspec if not u.startswith("omitted")]
        if soft:
            return Verdict(UNSPEC, "semantic", None, soft, toks, tree, lr)
    return Verdict(ACCEPT, None, None, (), toks, tree, lr)


# ---------------------------------------------------------------------------
# canonical argument order (tagged arguments are unordered in Sieve)
# ---------------------------------------------------------------------------
def canon_nf(nf, spec=SPEC):
    """Sort the tagged arguments (tag + its parameter) of every node by tag name,
    keep positional arguments in order.  Used where a property speaks of the
    *same tagged arguments*, not of their order (C04, C06, C11)."""
    name, args, tests, block = nf
    sp = spec.get(name)
    if sp is not None:
        groups, rest = [], []
        i = 0
        args = list(args)
        ok = True
        while i < len(args):
            a = args[i]
            if a[0] == "tag" and not rest:
                ent = sp["tags"].get(a[1])
                if ent is not None and ent[1] is not None and i + 1 < len(args) \
                        and args[i + 1][0] != "tag":
                    groups.append((a, args[i + 1]))
                    i += 2
                    continue
                mandatory = any(isinstance(p, tuple) and a[1] in p[1] for p in sp["pos"])
                if mandatory:
                    rest.append(a)
                else:
                    groups.append((a,))
                i += 1
                continue
            rest.append(a)
            i += 1
        groups.sort(key=lambda g: g[0][1])
        args = tuple(x for g in groups for x in g) + tuple(rest)
    return (name, tuple(args), tuple(canon_nf(t, spec) for t in tests),
            None if block is None else tuple(canon_nf(c, spec) for c in block))
