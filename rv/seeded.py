"""Evaluate seeded property-breaking changes (/verif/seeded/<name>/patch.diff).

For each: scratch worktree of /repo HEAD + patch; repository tests must pass; the
demonstration must fail there and pass on /repo; then the property's check (and optionally
all checks) is run with VERIF_REPO pointing at the scratch tree and must report an unlisted
VIOLATION (exit 1).  Evidence/replays of these runs go to a temp dir, never to /verif/evidence.

usage: python -m rv.seeded [--all-checks] [--tier quick] [name ...]
"""
import json
import os
import shutil
import subprocess
import sys
import tempfile
import time

ROOT = os.path.dirname(os.path.dirname(os.path.abspath(__file__)))
PY = sys.executable


def sh(cmd, cwd=None, env=None, timeout=3600):
    p = subprocess.run(cmd, shell=isinstance(cmd, str), cwd=cwd, env=env, timeout=timeout,
                       stdout=subprocess.PIPE, stderr=subprocess.STDOUT)
    return p.returncode, p.stdout.decode("utf-8", "replace")


def evaluate(name, all_checks=False, tier="quick", extra_checks=()):
    d = os.path.join(ROOT, "seeded", name)
    meta = json.load(open(os.path.join(d, "meta.json")))
    pid = meta["property"]
    if meta.get("superseded"):
        return {"name": name, "property": pid, "superseded": meta["superseded"]}
    scratch = tempfile.mkdtemp(prefix="seed-%s-" % name, dir="/tmp")
    os.rmdir(scratch)
    out = {"name": name, "property": pid}
    try:
        rc, o = sh(["git", "-C", "/repo", "worktree", "add", "-q", "--detach", scratch, "HEAD"])
        if rc:
            out["error"] = "worktree: " + o[-300:]
            return out
        rc, o = sh(["git", "-C", scratch, "apply", os.path.join(d, "patch.diff")])
        if rc:
            out["error"] = "patch does not apply: " + o[-300:]
            return out
        rc, o = sh("%s -m pytest -q -p no:cacheprovider 2>&1 | tail -1" % PY, cwd=scratch)
        out["tests"] = o.strip()
        demo = os.path.join(d, "demo.py")
        if os.path.exists(demo):
            out["demo_changed_rc"] = sh([PY, demo], cwd=scratch, timeout=300)[0]
            out["demo_unchanged_rc"] = sh([PY, demo], cwd="/repo", timeout=300)[0]
        tmp = tempfile.mkdtemp(prefix="seed-ev-")
        env = dict(os.environ, VERIF_REPO=scratch, VERIF_EVIDENCE_DIR=os.path.join(tmp, "ev"),
                   VERIF_REPLAY_DIR=os.path.join(tmp, "rp"))
        checks = [pid] + [c for c in extra_checks if c != pid]
        if all_checks:
            m = json.load(open(os.path.join(ROOT, "MANIFEST.json")))
            checks = [pid] + [c["property_id"] for c in m["checks"] if c["property_id"] != pid]
        out["checks"] = {}
        for c in checks:
            t = time.time()
            rc, o = sh([PY, "-m", "rv", c, "--tier", tier], cwd=ROOT, env=env)
            viol = [l for l in o.splitlines() if l.startswith("VIOLATION")]
            out["checks"][c] = {"rc": rc, "violations": len(viol),
                                "first": viol[0][:260] if viol else "",
                                "wall_s": round(time.time() - t, 1)}
        shutil.rmtree(tmp, ignore_errors=True)
    finally:
        sh(["git", "-C", "/repo", "worktree", "remove", "--force", scratch])
        shutil.rmtree(scratch, ignore_errors=True)
    return out


def main():
    args = sys.argv[1:]
    all_checks = "--all-checks" in args
    tier = "quick"
    if "--tier" in args:
        tier = args[args.index("--tier") + 1]
    names = [a for a in args if not a.startswith("--") and a != tier]
    if not names:
        names = sorted(os.listdir(os.path.join(ROOT, "seeded")))
    names = [n for n in names if os.path.exists(os.path.join(ROOT, "seeded", n, "meta.json"))]
    rows = []
    for n in names:
        r = evaluate(n, all_checks, tier)
        rows.append(r)
        if r.get("superseded"):
            print("%-28s %s superseded: %s" % (n, r["property"], r["superseded"][:120]))
            continue
        own = r.get("checks", {}).get(r["property"], {})
        mp = os.path.join(ROOT, "seeded", n, "meta.json")
        meta = json.load(open(mp))
        meta["ran"] = {
            "repository_tests_with_change": r.get("tests"),
            "demo_exit_code_changed_tree": r.get("demo_changed_rc"),
            "demo_exit_code_unchanged_tree": r.get("demo_unchanged_rc"),
            "check": "VERIF_REPO=<scratch worktree with patch> /venv/bin/python -m rv %s "
                     "--tier %s" % (r["property"], tier),
            "check_exit_code": own.get("rc"),
            "first_violation": own.get("first", "")[:240],
        }
        json.dump(meta, open(mp, "w"), indent=1)
        caught_by = [c for c, v in r.get("checks", {}).items() if v["rc"] == 1]
        print("%-28s %s tests=[%s] demo(changed/unchanged)=%s/%s own-check rc=%s caught_by=%s %s" % (
            n, r["property"], r.get("tests", "?"), r.get("demo_changed_rc"),
            r.get("demo_unchanged_rc"), own.get("rc"), caught_by, r.get("error", "")))
        if own.get("first"):
            print("      " + own["first"])
        sys.stdout.flush()
    # a partial run (names given) merges its rows into the file instead of replacing it
    rp = os.path.join(ROOT, "seeded", "RESULTS.json")
    if len(sys.argv) > 1 and any(not a.startswith("--") for a in sys.argv[1:]) and os.path.exists(rp):
        try:
            old = json.load(open(rp))
        except ValueError:
            old = []
        fresh = {r["name"] for r in rows}
        rows = sorted([r for r in old if r.get("name") not in fresh] + rows,
                      key=lambda r: r.get("name", ""))
    with open(rp, "w") as f:
        json.dump(rows, f, indent=1)
    missed = [r["name"] for r in rows if not r.get("superseded")
              and r.get("checks", {}).get(r["property"], {}).get("rc") != 1]
    print("missed by own check:", missed)
    return 0


if __name__ == "__main__":
    sys.exit(main())
