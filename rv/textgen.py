"""Random text from broad character classes (W-TEXT).

The fixed value pools of the checks hold the values somebody thought of; seeded changes
kept slipping through on a single value class the pools lacked (a comment ending in `**/`,
a line starting with U+FEFF, a name containing U+2028, a token starting with `Bearer `).
This module draws text from classes instead: every class below is something a str method, a
codec, a regular expression or a protocol grammar treats specially.
"""
from __future__ import annotations

CLASSES = {
    "letters": list("abcxyzABCXYZ"),
    "digits": list("0123456789"),
    "non-ascii-digits": ["\u0663", "\u096b", "\uff11", "\uff12", "\u00b2", "\u00b3", "\u00b9", "\u00bd"],
    "punct": list("!#$%&'()*+,-./:;<=>?@[]^_`{|}~"),
    "dquote-backslash": ['"', "\\"],
    "blank": [" ", "\t"],
    "line-break": ["\n", "\r", "\r\n"],
    "splitlines-extra": ["\x0b", "\x0c", "\x1c", "\x1d", "\x1e", "\x85", "\u2028", "\u2029"],
    "unicode-space": ["\u00a0", "\u1680", "\u2000", "\u2003", "\u2009", "\u202f", "\u205f",
                      "\u3000"],
    "format": ["\ufeff", "\u200b", "\u200c", "\u200d", "\u2060", "\u00ad", "\u200e", "\u200f",
               "\u202e", "\u2066", "\u2069"],
    "control": ["\x01", "\x07", "\x08", "\x1b", "\x1f", "\x7f"],
    "nul": ["\x00"],
    "case-special": ["\u00df", "\u1e9e", "\u0131", "\u0130", "\u212a", "\u212b", "\u017f", "\u01c5",
                     "\ufb01", "\u00b5", "\u03a3", "\u03c2"],
    "latin": list("\u00e9\u00e8\u00e0\u00fc\u00f6\u00f1\u00e7\u00f8\u00e5"),
    "combining": ["e\u0301", "a\u0308", "\u0301", "n\u0303"],
    "bmp": ["\u20ac", "\u65e5", "\u672c", "\u8a9e", "\u0442\u0435\u0441\u0442", "\u03bb",
            "\u05e2\u05d1\u05e8\u05d9\u05ea", "\u0627\u0644\u0639\u0631\u0628\u064a\u0629",
            "\u0e44\u0e17\u0e22", "\ud55c"],
    "astral": ["\U0001F600", "\U0001F1E9\U0001F1EA", "\U00010348", "\U000E0001"],
    "edge-codepoints": ["\ufffd", "\ufffe", "\uffff", "\ud7ff", "\ue000", "\U0010ffff"],
    "sieve-syntax": ["text:", "text:\n", "\n.\n", ".", "..", "/*", "*/", "**/", "#", "[", "]",
                     "(", ")", "{", "}", ";", ",", ":is", ":", "if", "true", "1K", "require"],
    "managesieve-syntax": ["{5}", "{5+}", "{0}", "{1+}\r\n", "OK", "NO", "BYE", " ACTIVE",
                           "\r\nLOGOUT\r\n", "(", ")", "*", "%", "Bearer ", "auth=", "n,a=",
                           "\x01", "=2C", "=3D", "realm=", "Username:"],
    "format-strings": ["%s", "%d", "%(x)s", "{0}", "{}", "{x}", "\\1", "\\g<0>", "$1", "${x}"],
    "regex-meta": [".", "*", "+", "?", "^", "$", "|", "\\d", "[a-z]", "(?i)", "\\Z"],
}
SURROGATES = ["\udcff", "\ud800", "\udfff", "\udc80"]

ALL = sorted(CLASSES)


def text(rng, lo=1, hi=12, exclude=(), only=None, no_outer_space=False, first_not=()):
    """A string of lo..hi pieces, each from a random class (classes in `exclude` never).
    no_outer_space: first and last character are not white space by str.isspace() rules
    (nor a format/control character); first_not: characters the text must not start with."""
    names = [c for c in (only or ALL) if c not in exclude]
    for _ in range(50):
        k = rng.randint(lo, hi)
        # a text usually stays within two or three classes (so that `letters` do not drown
        # the rare ones), sometimes it mixes everything
        pal = names if rng.random() < 0.25 else rng.sample(names, min(len(names), rng.choice([1, 2, 3])))
        out = "".join(rng.choice(CLASSES[rng.choice(pal)]) for _ in range(k))
        if not out and lo > 0:
            continue
        if no_outer_space and out and (out[0].isspace() or out[-1].isspace()
                                       or out != out.strip()):
            out = "a" + out + "z"
        if out and out[0] in first_not:
            out = "a" + out
        return out
    return "a"


def classes_of(s):
    """names of the special classes present in s (for coverage reporting)"""
    out = set()
    for name, items in CLASSES.items():
        if name in ("letters", "digits", "punct", "blank"):
            continue
        if any(it in s for it in items):
            out.add(name)
    return out
