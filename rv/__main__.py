"""Entry point: /venv/bin/python -m rv <ID> --tier quick|thorough [--replay PATH]"""
import argparse
import json
import os
import sys


def main():
    ap = argparse.ArgumentParser()
    ap.add_argument("pid", nargs="?")
    ap.add_argument("--tier", default=os.environ.get("VERIF_TIER", "quick"),
                    choices=["quick", "thorough"])
    ap.add_argument("--replay")
    ap.add_argument("--worker")
    ap.add_argument("--shard")
    ap.add_argument("--out")
    a = ap.parse_args()
    from rv import core

    if a.worker:
        core.worker_main(a.worker, a.tier, json.loads(a.shard), a.out)
        return 0
    if not a.pid:
        ap.error("property id required")
    return core.drive(a.pid.upper(), a.tier, a.replay)


if __name__ == "__main__":
    sys.exit(main())
