"""Workload generators for the Sieve-language checks (W-TOK, W-GEN, W-MUT,
W-META, W-BYTES, W-SCALE).  Driven by rsieve.SPEC; never imports sievelib."""
from __future__ import annotations

import itertools
import random

from . import rsieve
from .rsieve import SPEC

ALL_EXT_PREAMBLE = (b'require ["fileinto","reject","envelope","body","imap4flags",'
                    b'"date","vacation","vacation-seconds","variables","copy",'
                    b'"mailbox","relational","regex"];')

MLS = b"text:\nml\n."

# ---------------------------------------------------------------------------
# W-TOK vocabularies
# ---------------------------------------------------------------------------
def _all_tags():
    out = []
    for sp in SPEC.values():
        for t in sp["tags"]:
            if t not in out:
                out.append(t)
        for p in sp["pos"]:
            if isinstance(p, tuple):
                for t in p[1]:
                    if t not in out:
                        out.append(t)
    return out


V_FULL = ([k.encode() for k in SPEC] + [t.encode() for t in _all_tags()]
          + [b"foobar", b":foobar", b'"s"', b"1", b"1K", MLS,
             b"[", b"]", b"(", b")", b"{", b"}", b";", b","])

V_SMALL = [b"if", b"else", b"stop", b"redirect", b"header", b"true",
           b"anyof", b"not", b":is", b'"s"', b"[", b"]", b"(", b")",
           b"{", b"}", b";", b","]

# even smaller: for the deepest enumeration
V_TINY = [b"if", b"keep", b"true", b"not", b"anyof", b'"s"', b"[", b"]",
          b"(", b")", b"{", b"}", b";", b","]


def join_tokens(toks, sep=b" "):
    """Join tokens; a multi-line literal must be followed by a line break."""
    out = bytearray()
    for i, t in enumerate(toks):
        if i:
            out += b"\n" if toks[i - 1].startswith(b"text:") else sep
        out += t
    if toks and toks[-1].startswith(b"text:"):
        out += b"\n"
    return bytes(out)


def tok_sequences(vocab, length, start, stop):
    """Sequences number start..stop-1 (mixed-radix order) of exactly `length`."""
    n = len(vocab)
    for idx in range(start, stop):
        x = idx
        seq = []
        for _ in range(length):
            seq.append(vocab[x % n])
            x //= n
        yield seq


# ---------------------------------------------------------------------------
# value generators
# ---------------------------------------------------------------------------
BENIGN = [b'"a"', b'"INBOX"', b'"user@example.com"', b'"Subject"', b'"x y"',
          b'"42"']
HOSTILE = [b'""', b'"a\\"b"', b'"x\\""', b'"b\\\\"', b'"\\\\\\""', b'"[a]"',
           b'"a,b"', b'"a\\", \\"b"', b'"]"', b'"["', b'","', b'":is"',
           b'"text:"', b'"# no comment"', b'"/* no */"', b'"{ } ;"',
           b'"l1\nl2"', b'"l1\r\nl2\r\n"', b'"\xc3\xa9t\xc3\xa9"', b'"\xe2\x82\xac"', b'"a\tb"',
           b'"\\a"', b'"if"', b'"1K"', b'"$"', b'"."', b'"a "', b'" a"',
           b'"\'q\'"', b'"%s"', b'"{0}"']
MULTILINES = [b"text:\nhello\n.", b"text:\n.", b"text: \nA\nB\n.",
              b"text:# c\nX\n.", b"text:\n..stuffed\n.", b"text:\n...\n.",
              b"text:\n\nblank above\n.", b"text:\n\xc3\xa9\n.",
              b'text:\n"quoted" [x] ; }\n.', b"text:\nif true { keep; }\n.",
              b"text:\n.x\n.", b"text:\ncost $5\n.", b"text:\r\nA\r\n..B\r\n.",
              # the "text:" line carries a hash comment / trailing blanks, with or without a body
              b"text:# c\n.", b"text: \t# c\r\n.", b"text:  \n.", b"text:#\n\n.",
              # body lines that nearly are the terminator: a dot followed by blanks, a dot
              # after a blank, a dot followed by text
              b"text:\n. \nafter dot-blank\n.", b"text:\n.\t\n.", b"text:\n.\x0c\n.",
              b"text:\n .\n.", b"text:\r\n. \r\n.\x0b\r\n.",
              # the keyword in other letter cases (the judge leaves these undecided; whatever
              # the parser accepts is still in C03/C04's domain)
              b"Text:\nx\n.", b"TEXT:\r\nx\r\n.", b"tExT:\nx\n."]


class ValueGen:
    def __init__(self, rng: random.Random, hostile=0.5, multiline=0.12):
        self.rng = rng
        self.hostile = hostile
        self.multiline = multiline

    def wild_string(self):
        """a quoted-string token whose content is drawn from broad character classes"""
        from . import textgen
        t = textgen.text(self.rng, 1, 8, exclude=["nul"])
        t = t.replace("\x00", "").replace("\r\n", "\n").replace("\r", "").replace("\n", "\r\n")
        t = t.replace("\\", "\\\\").replace('"', '\\"')
        return b'"' + t.encode("utf-8") + b'"'

    def string(self, allow_ml=True):
        r = self.rng.random()
        if r > 0.93:
            return self.wild_string()
        if allow_ml and r < self.multiline:
            return self.rng.choice(MULTILINES)
        if r < self.multiline + self.hostile:
            return self.rng.choice(HOSTILE)
        return self.rng.choice(BENIGN)

    def stringlist(self):
        """token list for a string-list in bracket form"""
        k = self.rng.choice([1, 1, 2, 2, 3])
        out = [b"["]
        for i in range(k):
            if i:
                out.append(b",")
            out.append(self.string(allow_ml=self.rng.random() < 0.3))
        out.append(b"]")
        return out

    def number(self):
        return self.rng.choice([b"0", b"1", b"7", b"100", b"1K", b"2M", b"1G", b"3k",
                                b"10m", b"4g", b"00", b"65536"])


# ---------------------------------------------------------------------------
# W-GEN: grammar-directed generator of valid scripts
# ---------------------------------------------------------------------------
ACTIONS = [k for k, v in SPEC.items() if v["role"] == "action"] + ["set"]
TESTS = [k for k, v in SPEC.items() if v["role"] == "test"]
LEAF_TESTS = [k for k in TESTS if SPEC[k]["tests"] == 0]


class Script:
    """A generated script as a token list plus layout hints."""

    __slots__ = ("toks", "exts")

    def __init__(self):
        self.toks = []
        self.exts = []


class ScriptGen:
    def __init__(self, rng: random.Random, maxdepth=3, hostile=0.4, multiline=0.1,
                 tag_prob=0.5, only=None):
        self.rng = rng
        self.maxdepth = maxdepth
        self.vg = ValueGen(rng, hostile, multiline)
        self.tag_prob = tag_prob
        self.only = only  # restrict actions/tests (names) or None

    # --- pieces -------------------------------------------------------------
    def _need(self, exts, e):
        if e and e not in exts:
            exts.append(e)

    def _param(self, ptype):
        r = self.rng
        if ptype == "S":
            return [self.vg.string()]
        if ptype == "N":
            return [self.vg.number()]
        if ptype == "SL":
            return [self.vg.string()] if r.random() < 0.5 else self.vg.stringlist()
        if ptype == "COMPARATOR":
            return [r.choice([b'"i;octet"', b'"i;ascii-casemap"'])]
        if ptype == "RELATIONAL":
            return [r.choice([b'"gt"', b'"ge"', b'"lt"', b'"le"', b'"eq"', b'"ne"'])]
        raise AssertionError(ptype)

    def command_args(self, name, exts, tagsel=None, order=None, optfirst=None):
        """Token list for the arguments of `name` (tags then positionals)."""
        sp = SPEC[name]
        r = self.rng
        toks = []
        slots = {}
        for t, (slot, ptype, ext) in sp["tags"].items():
            slots.setdefault(slot, []).append((t, ptype, ext))
        slotnames = list(slots)
        if tagsel is None:
            tagsel = [s for s in slotnames if r.random() < self.tag_prob]
            r.shuffle(tagsel)
            chosen = [(s, r.choice(slots[s])) for s in tagsel]
        else:
            chosen = tagsel  # explicit [(slot,(tag,ptype,ext))]
        if chosen and getattr(self, "repeat_slot", 0) and r.random() < self.repeat_slot:
            # fill one optional slot twice (outside C01/C03's claim, but the parser accepts
            # it and C04 speaks of every accepted script)
            s0 = r.choice(chosen)[0]
            chosen = list(chosen) + [(s0, r.choice(slots[s0]))]
            r.shuffle(chosen)
        for slot, (t, ptype, ext) in chosen:
            self._need(exts, ext)
            tt = t.encode()
            toks.append(tt)
            if ptype:
                toks += self._param(ptype)
        pos = list(sp["pos"])
        if sp["optfirst"]:
            use_first = r.random() < 0.5 if optfirst is None else optfirst
            if not use_first:
                pos = pos[1:]
        for p in pos:
            if isinstance(p, tuple):
                toks.append(r.choice(p[1]).encode())
            else:
                toks += self._param(p)
        return toks

    def test(self, exts, depth):
        r = self.rng
        pool = TESTS if depth < self.maxdepth else LEAF_TESTS
        if self.only:
            pool = [t for t in pool if t in self.only or SPEC[t]["tests"] != 0] or pool
        name = r.choice(pool)
        sp = SPEC[name]
        self._need(exts, sp["ext"])
        toks = [name.encode()]
        if sp["tests"] == 1:
            toks += self.test(exts, depth + 1)
        elif sp["tests"] == "*":
            k = r.choice([1, 2, 2, 3])
            toks.append(b"(")
            for i in range(k):
                if i:
                    toks.append(b",")
                toks += self.test(exts, depth + 1)
            toks.append(b")")
        else:
            toks += self.command_args(name, exts)
        return toks

    def action(self, exts):
        pool = ACTIONS
        if self.only:
            pool = [a for a in pool if a in self.only] or pool
        name = self.rng.choice(pool)
        sp = SPEC[name]
        self._need(exts, sp["ext"])
        return [name.encode()] + self.command_args(name, exts) + [b";"]

    def block(self, exts, depth):
        r = self.rng
        toks = [b"{"]
        for _ in range(r.choice([0, 1, 1, 2, 3])):
            toks += self.command(exts, depth + 1)
        toks.append(b"}")
        return toks

    def command(self, exts, depth):
        r = self.rng
        if depth < self.maxdepth and r.random() < 0.45:
            toks = [b"if"] + self.test(exts, depth) + self.block(exts, depth)
            for _ in range(r.choice([0, 0, 1, 2])):
                toks += [b"elsif"] + self.test(exts, depth) + self.block(exts, depth)
            if r.random() < 0.4:
                toks += [b"else"] + self.block(exts, depth)
            return toks
        return self.action(exts)

    def body(self, ncmds=None):
        exts = []
        toks = []
        for _ in range(ncmds or self.rng.choice([1, 1, 2, 3, 4])):
            toks += self.command(exts, 0)
        return toks, exts

    def require_tokens(self, exts):
        r = self.rng
        if not exts:
            return []
        exts = list(exts)
        r.shuffle(exts)
        if len(exts) == 1 and r.random() < 0.5:
            return [b"require", b'"%s"' % exts[0].encode(), b";"]
        p = r.random()
        if p < 0.12:
            # a capability named twice: in one list, or again in a second require placed
            # before the capabilities that are still missing (legal, and idempotent)
            d = r.choice(exts)
            if r.random() < 0.5:
                k = r.randrange(0, len(exts))
                return self._req_list(exts[:k] + [d] + exts[k:])
            k = r.randrange(1, len(exts) + 1)
            return self._req_list(exts[:k]) + self._req_list([r.choice(exts[:k])] + exts[k:])
        if len(exts) > 1 and p < 0.35:
            k = r.randrange(1, len(exts))
            return (self._req_list(exts[:k]) + self._req_list(exts[k:]))
        return self._req_list(exts)

    @staticmethod
    def _req_list(exts):
        toks = [b"require", b"["]
        for i, e in enumerate(exts):
            if i:
                toks.append(b",")
            toks.append(b'"%s"' % e.encode())
        return toks + [b"]", b";"]

    def script(self, ncmds=None):
        body, exts = self.body(ncmds)
        return self.require_tokens(exts) + body, exts


def exhaustive_command_uses(name, rng, max_perm=24):
    """Every tag subset (one tag per slot chosen in rotation) and capped
    permutations of `name`; yields (arg token list, exts)."""
    sp = SPEC[name]
    slots = {}
    for t, (slot, ptype, ext) in sp["tags"].items():
        slots.setdefault(slot, []).append((t, ptype, ext))
    slotnames = list(slots)
    g = ScriptGen(rng, hostile=0.3)
    for k in range(len(slotnames) + 1):
        for sub in itertools.combinations(slotnames, k):
            perms = list(itertools.permutations(sub))
            if len(perms) > max_perm:
                perms = rng.sample(perms, max_perm)
            for perm in perms:
                # rotate through the tags of each slot
                width = max([len(slots[s]) for s in perm] or [1])
                for w in range(width):
                    chosen = [(s, slots[s][w % len(slots[s])]) for s in perm]
                    for optfirst in ((True, False) if sp["optfirst"] else (None,)):
                        exts = []
                        g._need(exts, sp["ext"])
                        toks = g.command_args(name, exts, tagsel=chosen,
                                              optfirst=optfirst)
                        yield toks, exts


def wrap_use(name, argtoks, exts, ctx, rng):
    """Place one command/test use into context ctx (0..3) and add require."""
    sp = SPEC[name]
    g = ScriptGen(rng)
    if sp["role"] == "test":
        t = [name.encode()] + argtoks
        if ctx == 0:
            body = [b"if"] + t + [b"{", b"keep", b";", b"}"]
        elif ctx == 1:
            body = [b"if", b"not"] + t + [b"{", b"stop", b";", b"}"]
        elif ctx == 2:
            body = ([b"if", b"anyof", b"(", b"true", b","] + t
                    + [b")", b"{", b"discard", b";", b"}"])
        else:
            body = ([b"if", b"allof", b"("] + t + [b",", b"not", b"false", b")",
                    b"{", b"if", b"true", b"{", b"keep", b";", b"}", b"}"])
    else:
        c = [name.encode()] + argtoks + [b";"]
        if ctx == 0:
            body = c
        elif ctx == 1:
            body = [b"if", b"true", b"{"] + c + [b"}"]
        elif ctx == 2:
            body = ([b"if", b"false", b"{", b"keep", b";", b"}", b"else", b"{"]
                    + c + [b"stop", b";", b"}"])
        else:
            body = ([b"keep", b";", b"if", b"true", b"{", b"if", b"true", b"{"]
                    + c + [b"}", b"}"])
    return g._req_list(exts) + body if exts else body


# ---------------------------------------------------------------------------
# layout / W-META
# ---------------------------------------------------------------------------
def render(toks, style="compact", nl=b"\n", indent=b"    "):
    """Layout a token list.  style: compact | lines (one command per line)."""
    if style == "compact":
        s = join_tokens(toks)
        return s if nl == b"\n" else _crlf_outside_quoted(toks, b" ", nl)
    out = bytearray()
    depth = 0
    bol = True
    par = 0
    for i, t in enumerate(toks):
        if t == b"}":
            depth = max(0, depth - 1)
        if bol:
            out += indent * depth
            bol = False
        elif t not in (b";", b",", b")", b"]") and toks[i - 1] not in (b"(", b"["):
            out += b" "
        tt = t
        if t.startswith(b"text:") and nl != b"\n":
            tt = t.replace(b"\n", nl)
        out += tt
        if t in (b"(", b"["):
            par += 1
        elif t in (b")", b"]"):
            par -= 1
        if t.startswith(b"text:"):
            out += nl
            bol = True
        elif par == 0 and t in (b";", b"{", b"}"):
            out += nl
            bol = True
            if t == b"{":
                depth += 1
    if not bol:
        out += nl
    return bytes(out)


def _crlf_outside_quoted(toks, sep, nl):
    out = bytearray()
    for i, t in enumerate(toks):
        if i:
            out += nl if toks[i - 1].startswith(b"text:") else sep
        out += t.replace(b"\n", nl) if t.startswith(b"text:") else t
    if toks and toks[-1].startswith(b"text:"):
        out += nl
    return bytes(out)


def is_word(t):
    return t[:1].isalpha() or t[:1] == b"_" or t[:1] == b":"


def recase(toks, how, rng):
    """Change the letter case of identifiers and tags only (token level)."""
    def f(t):
        if not is_word(t) or t.startswith(b"text:"):
            return t
        if how == "upper":
            return t.upper()
        return bytes(c - 32 if (97 <= c <= 122 and rng.random() < 0.5) else c for c in t)
    return [f(t) for t in toks]


def meta_rewrites(toks, rng):
    """Semantics-preserving rewrites -> list of (label, bytes)."""
    out = []

    def case(f):
        return [f(t) if (is_word(t) and not t.startswith(b"text:")) else t
                for t in toks]

    out.append(("upper", join_tokens(case(bytes.upper))))
    out.append(("title", join_tokens(case(lambda t: t[:1] + t[1:2].upper() + t[2:]
                                          if t[:1] == b":" else t.capitalize()))))
    out.append(("mixed", join_tokens(case(
        lambda t: bytes(c - 32 if (97 <= c <= 122 and rng.random() < 0.5) else c
                        for c in t)))))
    out.append(("tabs", join_tokens(toks, b"\t")))
    out.append(("wide", join_tokens(toks, b"  \n\t ")))
    out.append(("lines-lf", render(toks, "lines", b"\n")))
    out.append(("lines-crlf", render(toks, "lines", b"\r\n")))
    out.append(("compact-crlf", _crlf_outside_quoted(toks, b"\r\n", b"\r\n")))
    # tight: no space where the lexer does not need one
    tight = bytearray()
    for i, t in enumerate(toks):
        if i:
            p = toks[i - 1]
            if p.startswith(b"text:"):
                tight += b"\n"
            elif (is_word(p) or p[:1].isdigit()) and (is_word(t) or t[:1].isdigit()):
                tight += b" "
        tight += t
    if toks and toks[-1].startswith(b"text:"):
        tight += b"\n"
    out.append(("tight", bytes(tight)))
    # comments between tokens
    com = bytearray()
    for i, t in enumerate(toks):
        if i:
            if toks[i - 1].startswith(b"text:"):
                com += b"\n"
            k = rng.randrange(4)
            com += [b" ", b" /* c */ ", b" # c ; { \" [\n", b"/**/ /* \n * x */ "][k]
        else:
            com += b"# leading\n/* c */"
        com += t
    com += b"\n# trailing" if not (toks and toks[-1].startswith(b"text:")) else b"\n#t\n"
    out.append(("comments", bytes(com)))
    # comment spellings a hand-written comment pattern trips over: runs of stars before the
    # closing slash, slashes and stars inside, "//", a hash inside brackets and the reverse
    com = bytearray()
    for i, t in enumerate(toks):
        if i:
            if toks[i - 1].startswith(b"text:"):
                com += b"\n"
            com += rng.choice(COMMENTS)
        com += t
    com += b"\n" + rng.choice(COMMENTS) if not (toks and toks[-1].startswith(b"text:")) \
        else b"\n" + rng.choice(COMMENTS) + b"\n"
    out.append(("comment-spellings", bytes(com)))
    return out


COMMENTS = [b" /** doc **/ ", b"/***/", b" /* a **/ ", b"/****/ ", b" /*****/ ",
            b" /* * / */ ", b"/*/ x */ ", b" /* // */ ", b" /* # not a hash comment */ ",
            b" # /* not a bracket comment\n", b" /* \r\n ** \r\n **/ ", b" /*\"*/ ",
            b" /*;{}[]()*/ ", b" #\n", b" #\r\n", b" /* text:\n.\n */ ", b" /**//**/ ",
            b" # \xc3\xa9\xe2\x82\xac *\\/\n", b" /* \xc3\xa9 **/ ", b"/* */ /* **/ "]


# ---------------------------------------------------------------------------
# W-MUT
# ---------------------------------------------------------------------------
def single_edits(toks, vocab, rng, cap=None):
    """All single-token deletions/replacements/insertions/swaps (optionally a
    random sample of `cap`). Yields (label, position, token list)."""
    n = len(toks)
    edits = []
    for i in range(n):
        edits.append(("del", i, None))
        for v in vocab:
            if v != toks[i]:
                edits.append(("rep", i, v))
    for i in range(n + 1):
        for v in vocab:
            edits.append(("ins", i, v))
    for i in range(n - 1):
        if toks[i] != toks[i + 1]:
            edits.append(("swap", i, None))
    if cap is not None and len(edits) > cap:
        edits = rng.sample(edits, cap)
    for kind, i, v in edits:
        if kind == "del":
            yield kind, i, toks[:i] + toks[i + 1:]
        elif kind == "rep":
            yield kind, i, toks[:i] + [v] + toks[i + 1:]
        elif kind == "ins":
            yield kind, i, toks[:i] + [v] + toks[i:]
        else:
            yield kind, i, toks[:i] + [toks[i + 1], toks[i]] + toks[i + 2:]


def targeted_edits(toks, rng):
    """One edit per rejection class the statement names that single random token edits
    rarely hit: else/elsif placement in every scope (including first in a nested block,
    after a non-if sibling, after another else), block after an action, semicolon after a
    block command, empty lists, doubled commas."""
    n = len(toks)
    starts = [0] + [i + 1 for i, t in enumerate(toks) if t in (b";", b"{", b"}") and i + 1 <= n]
    out = []
    for i in starts:
        out.append(("ins-else-block", i, toks[:i] + [b"else", b"{", b"}"] + toks[i:]))
        out.append(("ins-elsif-block", i,
                    toks[:i] + [b"elsif", b"true", b"{", b"keep", b";", b"}"] + toks[i:]))
        out.append(("ins-if-else-else", i,
                    toks[:i] + [b"if", b"true", b"{", b"}", b"else", b"{", b"}", b"else",
                                b"{", b"}"] + toks[i:]))
    for i, t in enumerate(toks):
        if t == b"if":
            out.append(("if->elsif", i, toks[:i] + [b"elsif"] + toks[i + 1:]))
        if t == b";":
            out.append(("semicolon->block", i, toks[:i] + [b"{", b"}"] + toks[i + 1:]))
        if t == b"{":
            # the block of a control replaced by a semicolon
            depth, j = 0, i
            while j < n:
                if toks[j] == b"{":
                    depth += 1
                elif toks[j] == b"}":
                    depth -= 1
                    if depth == 0:
                        break
                j += 1
            if j < n:
                out.append(("block->semicolon", i, toks[:i] + [b";"] + toks[j + 1:]))
        if t == b"[":
            j = toks.index(b"]", i)
            out.append(("empty-list", i, toks[:i + 1] + toks[j:]))
        if t == b",":
            out.append(("double-comma", i, toks[:i] + [b",", b","] + toks[i + 1:]))
        if t == b"(":
            out.append(("empty-testlist", i, toks[:i + 1] + [b")"] + toks[i + 1:]))
    if len(out) > 80:
        out = rng.sample(out, 80)
    return out + bracket_edits(toks, rng) + tag_edits(toks, rng) + string_edits(toks, rng)


def string_edits(toks, rng, cap=40):
    """Lexical damage INSIDE a quoted string token (the string keeps its place): a backslash
    right before a line break, a dropped backslash of an escaped pair at the end of a line,
    the closing quote eaten by a backslash, an unescaped quote in the middle, bare CR."""
    out = []
    for i, t in enumerate(toks):
        if t[:1] != b'"' or len(t) < 2:
            continue
        body = t[1:-1]
        k = len(body) // 2
        for name, new in (
                ("backslash-LF", b'"' + body[:k] + b"\\\n" + body[k:] + b'"'),
                ("backslash-CRLF", b'"' + body[:k] + b"\\\r\n" + body[k:] + b'"'),
                ("escaped-backslash-LF", b'"' + body[:k] + b"\\\\\n" + body[k:] + b'"'),
                ("backslash-at-end", b'"' + body + b'\\"'),
                ("escaped-backslash-at-end", b'"' + body + b'\\\\"'),
                ("quote-inside", b'"' + body[:k] + b'"' + body[k:] + b'"'),
                ("bare-CR-inside", b'"' + body[:k] + b"\r" + body[k:] + b'"'),
                ("no-closing-quote", b'"' + body)):
            out.append(("string:" + name, i, toks[:i] + [new] + toks[i + 1:]))
    if len(out) > cap:
        out = rng.sample(out, cap)
    return out


def tag_edits(toks, rng, cap=60):
    """Every tag the language knows, put where a tag stands or right behind a command name:
    legal for some commands, illegal for most (the judge decides, never the intent)."""
    tags = [t.encode() for t in _all_tags()]
    out = []
    for i, t in enumerate(toks):
        if t[:1] == b":":
            for x in tags:
                if x != t.lower():
                    out.append(("tag->tag", i, toks[:i] + [x] + toks[i + 1:]))
        elif is_word(t) and t.decode("ascii", "replace").lower() in SPEC and i + 1 < len(toks):
            for x in tags:
                out.append(("tag-after-name", i + 1, toks[:i + 1] + [x] + toks[i + 1:]))
    if len(out) > cap:
        out = rng.sample(out, cap)
    return out


CLOSERS = [b")", b"]", b"}"]
OPENERS = [b"(", b"[", b"{"]


def bracket_edits(toks, rng, cap=60):
    """Mismatched-bracket mutants that keep the COUNTS balanced (two cooperating edits): a
    closer of the wrong kind put where a token stands or between two tokens, followed at once
    or later by an opener, so that only a parser that matches bracket KINDS rejects them."""
    n = len(toks)
    out = []
    for i in range(1, n + 1):
        for c in CLOSERS:
            for o in OPENERS:
                # wrong closer + opener inserted between two tokens
                out.append(("closer+opener", i, toks[:i] + [c, o] + toks[i:]))
                if i < n and toks[i] in (b";", b",") :
                    out.append(("sep->closer+opener", i, toks[:i] + [c, o] + toks[i + 1:]))
    for i, t in enumerate(toks):
        if t in CLOSERS:
            for c in CLOSERS:
                if c != t:
                    # closer kinds swapped pairwise with a later closer
                    for j in range(i + 1, n):
                        if toks[j] in CLOSERS and toks[j] != t:
                            m = list(toks)
                            m[i], m[j] = toks[j], t
                            out.append(("closers-swapped", i, m))
                            break
        if t in OPENERS:
            for o in OPENERS:
                if o != t:
                    for j in range(i + 1, n):
                        if toks[j] in OPENERS and toks[j] != t:
                            m = list(toks)
                            m[i], m[j] = toks[j], t
                            out.append(("openers-swapped", i, m))
                            break
    if len(out) > cap:
        out = rng.sample(out, cap)
    return out


# ---------------------------------------------------------------------------
# W-BYTES
# ---------------------------------------------------------------------------
HOSTILE_BYTES = [b"\x00", b"\xff", b"\xc3", b"\x80", b"\xc3\xa9", b"\xe2\x82\xac",
                 b"\xf0\x9f\x98\x80", b'"', b"\\", b"{", b"}", b"[", b"]", b"(",
                 b")", b";", b",", b":", b"#", b"/", b"*", b"/*", b"*/", b"\r",
                 b"\n", b"\r\n", b".", b"\n.\n", b"text:", b"text:\n", b"$", b"&",
                 b" ", b"\t", b"\x0b", b"\x0c", b"0", b"9K", b"_", b"\xef\xbb\xbf"]


def byte_mutants(seed: bytes, rng, n, extra_words=()):
    words = list(HOSTILE_BYTES) + list(extra_words)
    for _ in range(n):
        b = bytearray(seed)
        for _k in range(rng.choice([1, 1, 1, 2, 3])):
            op = rng.randrange(6)
            pos = rng.randrange(len(b) + 1)
            if op == 0 and b:
                b[pos % len(b)] ^= 1 << rng.randrange(8)
            elif op == 1:
                b[pos:pos] = rng.choice(words)
            elif op == 2 and b:
                del b[pos % len(b):(pos % len(b)) + rng.choice([1, 1, 2, 5])]
            elif op == 3 and b:
                p = pos % len(b)
                b[p:p + 1] = rng.choice(words)
            elif op == 4 and b:
                del b[pos:]
            else:
                p2 = rng.randrange(len(b) + 1)
                a, c = min(pos, p2), max(pos, p2)
                b[pos:pos] = b[a:c][:40]
        yield bytes(b)


# ---------------------------------------------------------------------------
# W-SCALE
# ---------------------------------------------------------------------------
def scale_families():
    def many(unit):
        return lambda n: unit * n
    fam = {
        "keep;*n": many(b"keep;\n"),
        "nested-if": lambda n: b"if true {\n" * n + b"keep;\n" + b"}\n" * n,
        "not-chain": lambda n: b"if " + b"not " * n + b"true { keep; }",
        "not-chain-testlist": lambda n: b"if " + b"not " * n + b"anyof (true, false) { keep; }",
        "not-chain-in-testlist": lambda n: b"if allof (" + b"not " * n + b"true, false) { keep; }",
        "testlist-chain": lambda n: b"if " + b"anyof (not " * n + b"true" + b")" * n + b" {}",
        "anyof-nest": lambda n: b"if " + b"anyof (" * n + b"true" + b")" * n + b" {}",
        "long-string": lambda n: b'redirect "' + b"a" * n + b'";',
        "long-list": lambda n: b'if exists [' + b",".join([b'"h"'] * n) + b'] {}',
        "hash-comments": many(b"# comment line\n"),
        "bracket-comments": many(b"/* c */ "),
        "one-big-bracket-comment": lambda n: b"/*" + b" x\n" * n + b"*/ keep;",
        "text-block": lambda n: (b'require "reject"; reject text:\n' + b"line\n" * n
                                 + b".\n;"),
        "text-unterminated-newlines": lambda n: b"text:" + b"\n" * n,
        "text-unterminated-lines": lambda n: b"text:\n" + b"abc\n" * n,
        "text-many-dots": lambda n: b"text:\n" + b".x\n" * n,
        "unterminated-string": lambda n: b'keep; redirect "' + b"a" * n,
        "unterminated-comment": lambda n: b"/*" + b"a" * n,
        "backslashes": lambda n: b'redirect "' + b"\\\\" * n + b'";',
        "backslash-unterminated": lambda n: b'redirect "' + b'\\"' * n,
        "many-tags": lambda n: b"if header " + b":is " * n + b'"a" "b" {}',
        "open-braces": lambda n: b"if true " + b"{" * n,
        "long-identifier": lambda n: b"a" * n + b";",
        "spaces": lambda n: b"keep" + b" " * n + b";",
        "elsif-chain": lambda n: b"if true {}\n" + b"elsif true {}\n" * n,
        "strings-list-unclosed": lambda n: b'if exists [' + b'"h",' * n,
        "colons": lambda n: b":" * n,
        "quotes": lambda n: b'"' * n,
        # one long run of blanks / CRs / stars INSIDE a token, text on both sides of it
        "comment-blank-run": lambda n: b"#a" + b" " * n + b"b\nkeep;",
        "comment-tab-run": lambda n: b"#a" + b"\t" * n + b"b\r\nkeep;",
        "comment-cr-run": lambda n: b"#a" + b"\r" * n + b"b\nkeep;",
        "bracket-comment-blank-run": lambda n: b"/*a" + b" " * n + b"b*/keep;",
        "bracket-comment-star-run": lambda n: b"/*a" + b"*" * n + b"b*/keep;",
        "string-blank-run": lambda n: b'redirect "a' + b" " * n + b'b";',
        "string-newline-run": lambda n: b'redirect "a' + b"\n" * n + b'b";',
        "text-blank-run": lambda n: b"redirect text:\na" + b" " * n + b"b\n.\n;",
        "text-dot-blank-lines": lambda n: b"redirect text:\n" + b". \n" * n + b".\n;",
        "blank-run-between-tokens": lambda n: b"keep" + b" \t" * n + b";# c" + b" " * n + b"\n",
        "identifier-underscores": lambda n: b"a" + b"_" * n + b"b;",
        "number-zeros": lambda n: b"if size :over " + b"0" * n + b"1K {}",
    }
    return fam


# ---------------------------------------------------------------------------
# W-LONG: structurally ordinary scripts with ONE dimension made large, sized at the
# numeric boundaries implementations trip over (small-int cache 256/257, 1024, 4096,
# CPython's 4300-digit int conversion limit, 65536)
# ---------------------------------------------------------------------------
COUNT_BOUNDS = [1, 2, 255, 256, 257, 258, 259, 300, 1023, 1024, 1025]
SIZE_BOUNDS = [1022, 1023, 1024, 1025, 4095, 4096, 4097, 8192, 65535, 65536]
DIGIT_BOUNDS = [9, 10, 11, 19, 20, 21, 100, 4299, 4300, 4301, 5000, 20000]


def _commas(items):
    out = []
    for i, it in enumerate(items):
        if i:
            out.append(b",")
        out.extend(it if isinstance(it, list) else [it])
    return out


def long_cases(rng, quick=True):
    """yield (family, n, toks, exts)"""
    leaf = [[b"true"], [b"false"], [b"exists", b'"h"'], [b"size", b":over", b"1K"],
            [b"header", b":is", b'"a"', b'"b"'], [b"not", b"true"]]
    counts = COUNT_BOUNDS if quick else COUNT_BOUNDS + [2047, 2048, 4096, 4097]
    for n in counts:
        tests = [list(rng.choice(leaf)) if i % 7 else [b"size", b":over", b"%dK" % i]
                 for i in range(n)]
        for comb in (b"anyof", b"allof"):
            yield ("testlist", n, [b"if", comb, b"("] + _commas(tests) + [b")", b"{", b"keep", b";", b"}"], [])
        yield ("testlist-nested", n,
               [b"if", b"allof", b"(", b"not", b"anyof", b"("] + _commas(tests)
               + [b")", b",", b"true", b")", b"{", b"stop", b";", b"}"], [])
        strs = [b'"h%d"' % i for i in range(n)]
        yield ("stringlist", n, [b"if", b"exists", b"["] + _commas(strs)
               + [b"]", b"{", b"discard", b";", b"}"], [])
        yield ("stringlist-2", n, [b"if", b"header", b":contains", b"["] + _commas(strs)
               + [b"]", b"["] + _commas(strs[::-1]) + [b"]", b"{", b"}"], [])
        yield ("stringlist-action", n, [b"require", b'"imap4flags"', b";", b"addflag", b"["]
               + _commas(strs) + [b"]", b";"], ["imap4flags"])
        body = []
        for i in range(n):
            body += rng.choice([[b"keep", b";"], [b"stop", b";"], [b"discard", b";"],
                                [b"redirect", b'"a%d@example.com"' % i, b";"]])
        yield ("block", n, [b"if", b"true", b"{"] + body + [b"}"], [])
        yield ("toplevel", n, list(body), [])
        chain = [b"if", b"true", b"{", b"}"]
        for i in range(n):
            chain += [b"elsif", b"exists", b'"x%d"' % i, b"{", b"keep", b";", b"}"]
        yield ("elsif-chain", n, chain + [b"else", b"{", b"stop", b";", b"}"], [])
        yield ("require-list", n, [b"require", b"["] + _commas([b'"fileinto"'] * n)
               + [b"]", b";", b"fileinto", b'"x"', b";"], ["fileinto"])
        if n <= 300:
            yield ("not-chain", n, [b"if"] + [b"not"] * n + [b"true", b"{", b"keep", b";", b"}"], [])
    for n in (10, 30, 60) if quick else (10, 30, 60, 100, 150):
        yield ("if-nest", n, [b"if", b"true", b"{"] * n + [b"keep", b";"] + [b"}"] * n, [])
        yield ("anyof-nest", n, [b"if"] + [b"anyof", b"("] * n + [b"true"] + [b")"] * n
               + [b"{", b"}"], [])
    for n in SIZE_BOUNDS:
        s = b'"' + b"a" * n + b'"'
        yield ("string", n, [b"redirect", s, b";"], [])
        yield ("string-escapes", n, [b"redirect", b'"' + b'\\"' * (n // 2) + b"b" * (n % 2) + b'"',
                                     b";"], [])
        yield ("string-in-list", n, [b"if", b"header", b":is", b'"h"', b"[", s, b",", b'"b"', b"]",
                                     b"{", b"}"], [])
        yield ("multiline-one-line", n, [b"require", b'"reject"', b";", b"reject",
                                         b"text:\n" + b"x" * n + b"\n.", b";"], ["reject"])
        if n <= 8192:
            yield ("multiline-lines", n, [b"require", b'"reject"', b";", b"reject",
                                          b"text:\n" + b"l\n" * n + b".", b";"], ["reject"])
            yield ("multiline-dotlines", n, [b"require", b'"reject"', b";", b"reject",
                                             b"text:\n" + b"..\n" * n + b".", b";"], ["reject"])
        yield ("identifier", n, [b"a" * n, b";"], [])
        yield ("identifier-test", n, [b"if", b"b" * n, b"{", b"}"], [])
        yield ("tag", n, [b"if", b"header", b":" + b"t" * n, b'"a"', b'"b"', b"{", b"}"], [])
        yield ("hash-comment", n, [b"#" + b"c" * n + b"\nkeep", b";"], [])
        yield ("bracket-comment", n, [b"/*" + b"c" * n + b"*/", b"keep", b";"], [])
        yield ("utf8-string", n, [b"redirect", b'"' + "é".encode() * (n // 2) + b'"', b";"], [])
    # two multi-line literals in one script, every ordered pair of spellings, code between
    for m1 in MULTILINES:
        for m2 in MULTILINES:
            yield ("mls-pair", 2, [b"require", b"[", b'"reject"', b",", b'"fileinto"', b"]", b";",
                                   b"reject", m1, b";", b"if", b"true", b"{", b"fileinto",
                                   b'"between"', b";", b"}", b"reject", m2, b";"],
                   ["reject", "fileinto"])
        yield ("mls-pair", 2, [b"if", b"header", b":is", m1, rng.choice(MULTILINES), b"{",
                               b"keep", b";", b"}", b"stop", b";"], [])
    for n in DIGIT_BOUNDS:
        for d in (b"1" * n, b"0" * n, b"9" * n):
            for q in (b"", b"K", b"g"):
                yield ("number-size", n, [b"if", b"size", b":over", d + q, b"{", b"keep", b";", b"}"], [])
            yield ("number-days", n, [b"require", b'"vacation"', b";", b"vacation", b":days", d,
                                      b'"x"', b";"], ["vacation"])
            yield ("number-surplus", n, [b"keep", d, b";"], [])
            yield ("number-where-string", n, [b"redirect", d, b";"], [])
