"""atheris (libFuzzer) workload for C02 thorough: coverage-guided byte mutation proposes
inputs; the oracle is still the C02 monitor set.  Run as a subprocess:

  python -m rv.fuzz_c02 <out.json> <seconds> <seed>
"""
import json
import os
import sys
import time


def main():
    out, seconds, seed = sys.argv[1], int(sys.argv[2]), int(sys.argv[3])
    from rv import core
    core.pin_repo()
    import atheris
    with atheris.instrument_imports(include=["sievelib"]):
        from rv import contracts, gen
        from rv.checks import c02
    contracts.install_parser_contracts()
    res = core.Result()
    deadline = time.time() + seconds
    state = {"n": 0}

    def dump():
        with open(out + ".tmp", "w") as f:
            json.dump(res.dump(), f)
        os.replace(out + ".tmp", out)

    def one(data):
        if time.time() > deadline:
            dump()
            os._exit(0)
        if state["n"] % 5000 == 0:
            dump()
        c02.observe(bytes(data), res, "atheris")
        res.case(bytes(data), nontrivial=bool(data))
        res.count("bytes:atheris-executions")
        state["n"] += 1

    d = os.path.join(os.path.dirname(out), "dict-%d.txt" % seed)
    with open(d, "w") as f:
        for t in gen.V_FULL:
            if b"\n" in t:
                continue
            f.write('"%s"\n' % t.decode().replace("\\", "\\\\").replace('"', '\\"'))
        for t in ('"text:\\x0a"', '"\\x0a.\\x0a"', '"/*"', '"*/"', '"#"', '"\\xc3\\xa9"',
                  '"require [\\"imap4flags\\"];"'):
            f.write(t + "\n")
    corpus = os.path.join(os.path.dirname(out), "corpus-%d" % seed)
    os.makedirs(corpus, exist_ok=True)
    for i, s in enumerate(c02.FIXED_SEEDS):
        with open(os.path.join(corpus, "seed%d" % i), "wb") as f:
            f.write(s)
    argv = [sys.argv[0], "-dict=" + d, "-max_len=400", "-seed=%d" % (seed + 1),
            "-max_total_time=%d" % (seconds + 30), "-timeout=60", "-print_final_stats=0",
            corpus]
    atheris.Setup(argv, one)
    try:
        atheris.Fuzz()
    finally:
        dump()


if __name__ == "__main__":
    main()
