"""Monitored execution of the real sievelib parser + harness-owned tree walker."""
from __future__ import annotations

import io
import re

from . import core
from . import rsieve

core.pin_repo()
from sievelib import commands as sl_commands  # noqa: E402
from sievelib import parser as sl_parser  # noqa: E402

Command = sl_commands.Command


class RedirectxCommand(sl_commands.RedirectCommand):
    """A custom command registered in every worker of every parser check: its class derives
    from a stock command's class and extends its definition (state cached per class must not
    leak along the inheritance chain)."""
    args_definition = list(sl_commands.RedirectCommand.args_definition) + [
        {"name": "note", "type": ["string"], "required": True}]


sl_commands.add_commands(RedirectxCommand)

INNER_SCRIPTS = [b"keep;", b"", b"if true { stop; }\n" * 40, b"foobar;", b'redirect "a@b";\n\n\n',
                 b'if header :is "a" "b" { discard; } else { keep; }', b'"unterminated',
                 b"# only a comment\n" * 3, b"if anyof (true, false) { keep; }" + b" " * 300]
NESTED = {"parses": 0, "inner": None}  # inner: index forced by a check, else by value length


class IncludexCommand(sl_commands.ActionCommand):
    """A custom command that validates another script when it is complete (the natural way
    to write an RFC 6609 `include`): a second Parser object runs to its end while the first
    one is between two tokens.  The process-wide list of loaded extensions is saved and put
    back, as a careful plug-in would."""
    args_definition = [{"name": "value", "type": ["string"], "required": True}]

    def complete_cb(self):
        saved = sl_commands.RequireCommand.loaded_extensions
        try:
            v = str(self.arguments.get("value", ""))
            k = NESTED["inner"] if NESTED["inner"] is not None else len(v)
            sl_parser.Parser().parse(INNER_SCRIPTS[k % len(INNER_SCRIPTS)])
            NESTED["parses"] += 1
        finally:
            sl_commands.RequireCommand.loaded_extensions = saved


sl_commands.add_commands(IncludexCommand)


SLOW = {"first": 0, "confirmed": 0}


def budget(data):
    return 20000 + 3000 * len(data)


class Outcome:
    __slots__ = ("kind", "ok", "error", "error_pos", "result", "steps", "exc", "parser")

    def verdict(self):
        if self.kind == "ret":
            return self.ok
        return self.kind  # 'exc' | 'hang'


def parse(data, parser=None, via_file=None) -> Outcome:
    """Run Parser.parse on `data` under the step budget and record everything."""
    p = parser or sl_parser.Parser()
    # stale attributes from an earlier use must not be mistaken for this run's
    if parser is None:
        pass
    o = Outcome()
    o.parser = p
    n = len(data) if isinstance(data, (bytes, str)) else 0
    if via_file is not None:
        kind, val, steps = core.guarded(p.parse_file, budget(data), via_file)
    else:
        kind, val, steps = core.guarded(p.parse, budget(data), data)
    if kind == "slow":
        # never decide on one timing: run it again (fresh parser)
        SLOW["first"] += 1
        p = o.parser = sl_parser.Parser() if parser is None else p
        if via_file is not None:
            kind, val, steps = core.guarded(p.parse_file, budget(data), via_file)
        else:
            kind, val, steps = core.guarded(p.parse, budget(data), data)
        if kind == "slow":
            SLOW["confirmed"] += 1
    o.kind, o.steps = kind, steps
    o.ok = val if kind == "ret" else None
    o.exc = val if kind != "ret" else None
    o.error = getattr(p, "error", None)
    o.error_pos = getattr(p, "error_pos", None)
    o.result = getattr(p, "result", None)
    return o


def snapshot(p, with_tree=True):
    """What a caller can read from a Parser object after parse(): taken right after the call
    and again after OTHER Parser objects have run, the two must agree."""
    tree = None
    if with_tree:
        res = getattr(p, "result", None)
        try:
            tree = nf_result(res) if isinstance(res, list) else repr(res)
        except RecursionError:
            tree = "too-deep"
        except Exception as e:  # a tree that can no longer be walked is a difference too
            tree = "unwalkable:%s" % type(e).__name__
    return (tree, getattr(p, "error", None), getattr(p, "error_pos", None))


ALL_EXTS = ["fileinto", "reject", "envelope", "body", "imap4flags", "date", "vacation",
            "vacation-seconds", "variables", "copy", "mailbox", "relational", "regex"]


def complete_require_by_hand(exts=ALL_EXTS):
    """Use of the commands module BETWEEN two parses, the way the filter factory or any
    other client of sievelib.commands may: a `require` command object is built and completed
    by hand, which registers its extensions in the module's process-wide list.  The next
    parse must not start from that list.  -> True when the API calls went through."""
    try:
        c = sl_commands.get_command_instance("require")
        c.check_next_arg("stringlist", ['"%s"' % e for e in exts])
        c.complete_cb()
        return True
    except Exception:
        return False


_ERRNORM = [
    (re.compile(r"^line \d+: "), ""),
    (re.compile(r"near '.*'$", re.S), "near X"),
    (re.compile(r"unknown token .*$", re.S), "unknown token X"),
    (re.compile(r"unexpected token '.*' found", re.S), "unexpected token X found"),
    (re.compile(r"bad argument .* for command (\S+) .*$", re.S),
     r"bad argument X for command \1"),
    (re.compile(r"bad value .* for argument (\S+)$", re.S), r"bad value X for argument \1"),
    (re.compile(r"b'.*?'"), "b'X'"),
]


def error_class(err):
    """Normalise an error message to its mechanism (no positions, no values)."""
    if not isinstance(err, str):
        return repr(type(err).__name__)
    s = err
    for rx, rep in _ERRNORM:
        s = rx.sub(rep, s)
    return s[:120]


# ---------------------------------------------------------------------------
# harness-owned walk over sievelib's tree (does not use Command.walk)
# ---------------------------------------------------------------------------
def _enc(v):
    return v.encode("utf-8", "surrogatepass") if isinstance(v, str) else v


def nf_value(v, decoded=False):
    if isinstance(v, (list, tuple)):
        items = tuple(_enc(x) if isinstance(x, (str, bytes)) else repr(x).encode()
                      for x in v)
        if decoded:
            items = tuple(_dec(x) for x in items)
        return ("list", items)
    if isinstance(v, bool) or v is None:
        return ("other", repr(v))
    if isinstance(v, int):
        return ("num", str(v))
    if isinstance(v, bytes):
        v = v.decode("utf-8", "replace")
    if isinstance(v, str):
        if v[:1] == ":":
            return ("tag", v.lower())
        if v[:1] == '"' or v.startswith("text:"):
            b = _enc(v)
            return ("str", _dec(b) if decoded else b)
        if v[:1].isdigit():
            return ("num", v.lower() if decoded else v)
        return ("other", v)
    return ("other", repr(v))


def _dec(b):
    if b[:1] == b'"' and b[-1:] == b'"' and len(b) >= 2:
        return rsieve.decode_quoted(b)
    if b.startswith(b"text:"):
        return rsieve.decode_multiline(b)
    return b


def nf_node(cmd, decoded=False, depth=0):
    if depth > 600:
        raise RecursionError
    args, tests = [], []
    for slot, value in cmd.arguments.items():
        if isinstance(value, Command):
            tests.append(nf_node(value, decoded, depth + 1))
            continue
        if isinstance(value, list) and value and all(isinstance(x, Command) for x in value):
            tests.extend(nf_node(x, decoded, depth + 1) for x in value)
            continue
        args.append(nf_value(value, decoded))
        if slot in cmd.extra_arguments:
            args.append(nf_value(cmd.extra_arguments[slot], decoded))
    for slot in cmd.extra_arguments:
        if slot not in cmd.arguments:
            args.append(("orphan-parameter", repr(cmd.extra_arguments[slot])))
    block = tuple(nf_node(ch, decoded, depth + 1) for ch in cmd.children) or None
    return (str(cmd.name).lower(), tuple(args), tuple(tests), block)


def nf_result(result, decoded=False):
    return tuple(nf_node(c, decoded) for c in result)


def norm_generic(nf):
    """Generic NF with empty blocks folded to None (sievelib cannot tell)."""
    name, args, tests, block = nf
    return (name, args, tuple(norm_generic(t) for t in tests),
            (tuple(norm_generic(c) for c in block) or None) if block else None)


def leaves(nf, out):
    """Multiset (as list) of significant tokens of an NF tree."""
    name, args, tests, block = nf
    out.append(("ident", name))
    for a in args:
        if a[0] == "list":
            for x in a[1]:
                out.append(("str", x))
        else:
            out.append(a)
    for t in tests:
        leaves(t, out)
    if block:
        for c in block:
            leaves(c, out)
    return out


def token_leaves(toks):
    out = []
    for t in toks:
        if t.kind == "ident":
            out.append(("ident", t.text.decode("ascii").lower()))
        elif t.kind == "tag":
            out.append(("tag", t.text.decode("ascii").lower()))
        elif t.kind == "num":
            out.append(("num", t.text.decode("ascii")))
        elif t.kind in ("str", "mls"):
            out.append(("str", t.text))
    return out


class ListSink(list):
    """A writer that collects chunks in a list: empty - hence FALSY - until first written
    to (a `target = target or default` in the code under test silently bypasses it)."""

    def write(self, s):
        self.append(s)
        return len(s)

    def flush(self):
        pass

    def getvalue(self):
        return "".join(self)


SERIALISE = {"n": 0, "sink-differs": []}


def read_through_getters(result):
    """Call the read-only public getters of every command of a tree (args_as_tuple, get_type,
    iscomplete, has_arguments, dump into a sink), as a caller inspecting the tree would before
    printing it.  Returns how many getter calls were made; what they return is not judged."""
    import contextlib
    n = 0
    seen = set()

    def node(c):
        nonlocal n
        if id(c) in seen:
            return
        seen.add(id(c))
        for name in ("args_as_tuple", "get_type", "iscomplete", "has_arguments"):
            fn = getattr(c, name, None)
            if callable(fn):
                try:
                    fn()
                except Exception:
                    pass
                n += 1
        fn = getattr(c, "dump", None)
        if callable(fn):
            try:
                with contextlib.redirect_stdout(io.StringIO()):
                    fn()
            except Exception:
                pass
            n += 1
        for v in list(getattr(c, "arguments", {}).values()):
            if isinstance(v, sl_commands.Command):
                node(v)
            elif isinstance(v, list):
                for x in v:
                    if isinstance(x, sl_commands.Command):
                        node(x)
        for ch in getattr(c, "children", []) or []:
            node(ch)
    for c in result:
        node(c)
    return n


def serialise(result):
    """tosieve() of every top-level command into one string.  Every 4th call collects the
    output a second time in a chunk list (ListSink) with stdout captured; both must agree."""
    buf = io.StringIO()
    for c in result:
        c.tosieve(target=buf)
    out = buf.getvalue()
    SERIALISE["n"] += 1
    if SERIALISE["n"] % 4 == 0:
        import contextlib
        sink = ListSink()
        leak = io.StringIO()
        with contextlib.redirect_stdout(leak):
            for c in result:
                c.tosieve(target=sink)
        if sink.getvalue() != out or leak.getvalue():
            SERIALISE["sink-differs"].append((out[:200], sink.getvalue()[:200],
                                              leak.getvalue()[:200]))
    return out


def first_diff(a, b, path=""):
    """Human-readable location of the first difference of two NF trees."""
    if a == b:
        return None
    if type(a) != type(b) or not isinstance(a, tuple):
        return "%s: %r != %r" % (path, _short(a), _short(b))
    if len(a) != len(b):
        return "%s: len %d != %d (%r vs %r)" % (path, len(a), len(b), _short(a), _short(b))
    for i, (x, y) in enumerate(zip(a, b)):
        d = first_diff(x, y, "%s/%d" % (path, i))
        if d:
            return d
    return None


def _short(x):
    s = repr(x)
    return s if len(s) < 160 else s[:157] + "..."


# ---------------------------------------------------------------------------
# M-TRANS: which parser transitions a workload actually drove (evidence only)
# ---------------------------------------------------------------------------
TRANSITIONS = set()
_trans_installed = False


def install_transition_recorder():
    """Wrap the parser's state functions (name-mangled; a missing one is skipped) and
    record distinct (state function, token type, outcome) triples."""
    global _trans_installed
    if _trans_installed:
        return
    _trans_installed = True
    cls = sl_parser.Parser
    for short in ("command", "arguments", "argument", "stringlist"):
        name = "_Parser__" + short
        fn = getattr(cls, name, None)
        if fn is None:
            continue

        def make(fn, short):
            def wrapper(self, ttype, tvalue):
                try:
                    r = fn(self, ttype, tvalue)
                except Exception as e:
                    TRANSITIONS.add("%s/%s/raise:%s" % (short, ttype, type(e).__name__))
                    raise
                TRANSITIONS.add("%s/%s/%s" % (short, ttype, r))
                return r
            return wrapper
        setattr(cls, name, make(fn, short))
