"""Shared runtime-monitoring infrastructure.

* pins the sievelib under test to $VERIF_REPO (default /repo)
* logical step budget (sys.monitoring LINE events restricted to sievelib files)
* driver/worker process model (fresh subprocess per shard, never a Pool)
* three-valued verdicts, known-findings classifier, evidence + replay files
"""
from __future__ import annotations

import hashlib
import importlib
import json
import os
import subprocess
import sys
import tempfile
import time
import traceback
from concurrent.futures import ThreadPoolExecutor

VERIF_DIR = os.path.dirname(os.path.dirname(os.path.abspath(__file__)))
REPO = os.path.abspath(os.environ.get("VERIF_REPO", "/repo"))
SEED = int(os.environ.get("VERIF_SEED", "0") or 0)
NCPU = int(os.environ.get("VERIF_JOBS", "0") or 0) or min(16, os.cpu_count() or 4)
DEPS = os.path.join(VERIF_DIR, ".deps")
KNOWN_FINDINGS = os.path.join(VERIF_DIR, "known_findings.json")
DISTINCT_CAP = 6_000_000  # merged 64-bit case hashes kept by the driver (memory bound)
GUARD = "SIEVELIB_VERIF"


# ---------------------------------------------------------------------------
# repository under test
# ---------------------------------------------------------------------------
def pin_repo():
    """Make `import sievelib` resolve to the working tree under test."""
    os.environ[GUARD] = "1"
    if sys.path[0] != REPO:
        sys.path.insert(0, REPO)
    for k in list(sys.modules):
        if k == "sievelib" or k.startswith("sievelib."):
            f = getattr(sys.modules[k], "__file__", "") or ""
            if not os.path.abspath(f).startswith(REPO + os.sep):
                del sys.modules[k]
    import warnings
    warnings.filterwarnings("ignore", category=SyntaxWarning)
    import sievelib  # noqa

    f = os.path.abspath(sievelib.__file__)
    if not f.startswith(REPO + os.sep):
        raise RuntimeError("sievelib imported from %s, expected under %s" % (f, REPO))
    if os.path.isdir(DEPS) and DEPS not in sys.path:
        sys.path.append(DEPS)  # appended: never shadows the repo interpreter
    return sievelib


def bootstrap_deps():
    """Idempotent offline install of optional third-party monitors."""
    marker = os.path.join(DEPS, "icontract")
    if os.path.isdir(marker):
        return True
    import fcntl

    os.makedirs(DEPS, exist_ok=True)
    with open(os.path.join(DEPS, ".lock"), "w") as lk:
        fcntl.flock(lk, fcntl.LOCK_EX)
        if os.path.isdir(marker):
            return True
        env = dict(os.environ, PIP_NO_INDEX="1")
        r = subprocess.run(
            [sys.executable, "-m", "pip", "install", "-q", "--no-index",
             "--find-links", "/opt/veriftools/wheels", "--target", DEPS,
             "icontract"],
            env=env, stdout=subprocess.PIPE, stderr=subprocess.STDOUT, timeout=300)
        # optional workload generator (coverage-guided mutation); absence is tolerated
        subprocess.run(
            [sys.executable, "-m", "pip", "install", "-q", "--no-index",
             "--find-links", "/opt/veriftools/wheels", "--target", DEPS, "atheris"],
            env=env, stdout=subprocess.PIPE, stderr=subprocess.STDOUT, timeout=300)
        return r.returncode == 0 and os.path.isdir(marker)


# ---------------------------------------------------------------------------
# logical step budget
# ---------------------------------------------------------------------------
class StepBudgetExceeded(BaseException):
    """BaseException on purpose: sievelib's `except Exception` cannot eat it."""


class TimeBudgetExceeded(BaseException):
    """Raised from a SIGALRM handler: one call burnt more wall-clock than any linear
    behaviour could (the regex engine polls signals, so catastrophic backtracking inside a
    single line event is interrupted too)."""


def _on_alarm(signum, frame):
    raise TimeBudgetExceeded("time budget exceeded")


class StepMonitor:
    """Counts LINE events inside $VERIF_REPO/sievelib; raises on overrun."""

    TOOL = 2  # sys.monitoring.PROFILER_ID

    def __init__(self):
        self.count = 0
        self.limit = 1 << 62
        self.total = 0
        self.installed = False
        self.prefix = os.path.join(REPO, "sievelib") + os.sep
        self.max_seen = 0

    def install(self):
        if self.installed:
            return
        mon = sys.monitoring
        try:
            mon.use_tool_id(self.TOOL, "rv-step")
        except ValueError:
            pass
        mon.register_callback(self.TOOL, mon.events.LINE, self._line)
        mon.set_events(self.TOOL, mon.events.LINE)
        self.installed = True

    def uninstall(self):
        if not self.installed:
            return
        mon = sys.monitoring
        mon.set_events(self.TOOL, 0)
        mon.register_callback(self.TOOL, mon.events.LINE, None)
        mon.free_tool_id(self.TOOL)
        self.installed = False

    def _line(self, code, line):
        if not code.co_filename.startswith(self.prefix):
            return sys.monitoring.DISABLE
        self.count += 1
        if self.count > self.limit:
            self.limit = 1 << 62  # fire once
            raise StepBudgetExceeded("step budget exceeded at %s:%d" % (
                os.path.basename(code.co_filename), line))

    def start(self, limit):
        self.count = 0
        self.limit = limit

    def stop(self):
        n = self.count
        self.limit = 1 << 62
        self.total += n
        if n > self.max_seen:
            self.max_seen = n
        return n


STEPS = StepMonitor()


ALARM_SECONDS = float(os.environ.get("VERIF_CALL_SECONDS", "8"))


def guarded(fn, limit, *a, **kw):
    """Run fn under the step budget and a per-call wall-clock alarm.

    Returns (kind, value, steps) with kind in {'ret','exc','hang','slow'}.
    For 'exc' value is (type name, str(exc), innermost sievelib frame).
    'slow' = the alarm fired (never a verdict by itself: callers confirm it).
    """
    import signal
    STEPS.install()
    STEPS.start(limit)
    use_alarm = threading_main()
    if use_alarm:
        old = signal.signal(signal.SIGALRM, _on_alarm)
        signal.setitimer(signal.ITIMER_REAL, ALARM_SECONDS)
    try:
        try:
            r = fn(*a, **kw)
        finally:
            if use_alarm:
                signal.setitimer(signal.ITIMER_REAL, 0)
                signal.signal(signal.SIGALRM, old)
        n = STEPS.stop()
        return ("ret", r, n)
    except TimeBudgetExceeded as e:
        n = STEPS.stop()
        return ("slow", "no result after %.0f s" % ALARM_SECONDS, n)
    except StepBudgetExceeded as e:
        n = STEPS.stop()
        return ("hang", str(e), n)
    except RecursionError as e:
        n = STEPS.stop()
        return ("exc", ("RecursionError", "", _inner_frame(e)), n)
    except Exception as e:  # noqa
        n = STEPS.stop()
        return ("exc", (type(e).__name__, str(e)[:200], _inner_frame(e)), n)


def threading_main():
    import threading
    return threading.current_thread() is threading.main_thread()


def _inner_frame(e):
    tb = e.__traceback__
    last = None
    n = 0
    while tb is not None and n < 100000:
        fn = tb.tb_frame.f_code.co_filename
        if fn.startswith(STEPS.prefix):
            last = "%s:%s" % (os.path.basename(fn), tb.tb_frame.f_code.co_name)
        tb = tb.tb_next
        n += 1
    return last or "?"


# ---------------------------------------------------------------------------
# small helpers
# ---------------------------------------------------------------------------
def h64(obj) -> int:
    if isinstance(obj, str):
        b = obj.encode("utf-8", "surrogatepass")
    elif isinstance(obj, bytes):
        b = obj
    else:
        b = repr(obj).encode("utf-8", "surrogatepass")
    return int.from_bytes(hashlib.blake2b(b, digest_size=8).digest(), "big")


def jsonable(x):
    if isinstance(x, bytes):
        try:
            return {"bytes": x.decode("ascii")}
        except UnicodeDecodeError:
            return {"bytes_latin1": x.decode("latin-1")}
    if isinstance(x, (list, tuple)):
        return [jsonable(i) for i in x]
    if isinstance(x, dict):
        return {str(k): jsonable(v) for k, v in x.items()}
    if isinstance(x, (str, int, float, bool)) or x is None:
        return x
    if isinstance(x, (set, frozenset)):
        return sorted(jsonable(i) for i in x)
    return repr(x)


def unjson_bytes(x):
    if isinstance(x, dict) and "bytes" in x:
        return x["bytes"].encode("ascii")
    if isinstance(x, dict) and "bytes_latin1" in x:
        return x["bytes_latin1"].encode("latin-1")
    return x


class Result:
    """Per-shard accumulator, serialised to JSON for the driver."""

    MAX_VIOL = 400
    MAX_HASHES = 400_000

    def __init__(self):
        self.evaluations = 0
        self.hashes = set()
        self.hash_overflow = 0
        self._best = {}  # sig key -> (size, {sig, witness}) smallest witness
        self.viol_counts = {}
        self.counters = {}
        self.observed = {}  # name -> set of small strings
        self.samples = []
        self.inconclusive = []
        self.monitors = {}  # name -> [evaluations, firings]

    def case(self, key=None, nontrivial=True):
        self.evaluations += 1
        if key is not None and nontrivial:
            if len(self.hashes) < self.MAX_HASHES:
                self.hashes.add(h64(key))
            else:
                self.hash_overflow += 1

    def count(self, name, n=1):
        self.counters[name] = self.counters.get(name, 0) + n

    def observe(self, name, value):
        s = self.observed.get(name)
        if s is None:
            s = self.observed[name] = set()
        if len(s) < 5000:
            s.add(value)

    def monitor(self, name, fired=False):
        m = self.monitors.get(name)
        if m is None:
            m = self.monitors[name] = [0, 0]
        m[0] += 1
        if fired:
            m[1] += 1

    def sample(self, s, cap=6):
        if len(self.samples) < cap:
            self.samples.append(jsonable(s))

    def violation(self, sig: dict, witness: dict):
        env = os.environ.get("VERIF_ENV_VARIANT_USED", "default")
        if env != "default" and isinstance(witness, dict):
            witness = dict(witness, interpreter_environment=env)
        key = json.dumps(sig, sort_keys=True)
        c = self.viol_counts.get(key, 0)
        self.viol_counts[key] = c + 1
        size = len(repr(witness))
        cur = self._best.get(key)
        if cur is None:
            if len(self._best) < self.MAX_VIOL:
                self._best[key] = (size, {"sig": sig, "witness": jsonable(witness)})
        elif size < cur[0]:
            self._best[key] = (size, {"sig": sig, "witness": jsonable(witness)})

    def is_new_sig(self, sig):
        return json.dumps(sig, sort_keys=True) not in self.viol_counts

    def dump(self):
        return {
            "evaluations": self.evaluations,
            "hashes": sorted(self.hashes),
            "hash_overflow": self.hash_overflow,
            "violations": [v[1] for v in self._best.values()],
            "viol_counts": self.viol_counts,
            "counters": self.counters,
            "observed": {k: sorted(v) for k, v in self.observed.items()},
            "samples": self.samples,
            "inconclusive": self.inconclusive,
            "monitors": self.monitors,
            "steps_total": STEPS.total,
            "steps_max": STEPS.max_seen,
        }


# ---------------------------------------------------------------------------
# known findings
# ---------------------------------------------------------------------------
def load_known(pid):
    try:
        with open(KNOWN_FINDINGS) as f:
            data = json.load(f)
    except FileNotFoundError:
        return []
    return [e for e in data.get("findings", [])
            if e.get("property") == pid and e.get("status") == "known"]


def sig_matches(match: dict, sig: dict) -> bool:
    for k, v in match.items():
        sv = sig.get(k)
        if isinstance(v, list):
            if sv not in v:
                return False
        elif sv != v:
            return False
    return True


# ---------------------------------------------------------------------------
# driver
# ---------------------------------------------------------------------------
# The interpreter environment is a dimension of the workload too: shards rotate through it.
ENV_VARIANTS = ["default", "ascii-locale", "hash-seed", "optimised"]


def _run_worker(pid, tier, shard, timeout, index=0):
    fd, out = tempfile.mkstemp(prefix="rv-%s-" % pid, suffix=".json")
    os.close(fd)
    env = dict(os.environ, PYTHONHASHSEED="0", VERIF_SEED=str(SEED),
               VERIF_REPO=REPO, PYTHONDONTWRITEBYTECODE="1")
    env[GUARD] = "1"
    variant = ENV_VARIANTS[index % len(ENV_VARIANTS)]
    if os.environ.get("VERIF_ENV_VARIANT"):
        variant = os.environ["VERIF_ENV_VARIANT"]
    flags = []
    if variant == "ascii-locale":
        # the C locale of a cron job or a bare container: text files and the standard
        # streams default to ASCII
        env.update(LC_ALL="C", LANG="C", PYTHONCOERCECLOCALE="0", PYTHONUTF8="0")
        env.pop("PYTHONIOENCODING", None)
    elif variant == "hash-seed":
        # another iteration order of sets (and of dicts keyed by hash-ordered data)
        env["PYTHONHASHSEED"] = str((SEED * 7919 + index * 104729 + 1) % 4294967295)
    elif variant == "optimised":
        flags = ["-O"]  # assert statements and `if __debug__` blocks are compiled away
    env["VERIF_ENV_VARIANT_USED"] = variant
    cmd = [sys.executable, "-X", "faulthandler"] + flags + [
        "-m", "rv", "--worker", pid,
        "--tier", tier, "--shard", json.dumps(shard), "--out", out]
    t0 = time.time()
    try:
        p = subprocess.run(cmd, cwd=VERIF_DIR, env=env, timeout=timeout,
                           stdout=subprocess.PIPE, stderr=subprocess.PIPE)
        rc, err = p.returncode, p.stderr.decode("utf-8", "replace")[-3000:]
    except subprocess.TimeoutExpired as e:
        rc, err = -9, "wall-clock watchdog (%ss) fired: %s" % (
            timeout, (e.stderr or b"").decode("utf-8", "replace")[-2000:])
    res = None
    try:
        with open(out) as f:
            txt = f.read()
        if txt:
            res = json.loads(txt)
    except Exception:
        res = None
    finally:
        try:
            os.unlink(out)
        except OSError:
            pass
    return {"shard": shard, "rc": rc, "stderr": err, "result": res,
            "wall": time.time() - t0}


def worker_main(pid, tier, shard, out):
    import faulthandler

    faulthandler.enable()
    pin_repo()
    mod = importlib.import_module("rv.checks.%s" % pid.lower())
    res = Result()
    res.observe("interpreter-environment", os.environ.get("VERIF_ENV_VARIANT_USED", "default"))
    try:
        mod.run_shard(tier, shard, res)
    except BaseException as e:  # harness failure, never a verdict
        res.inconclusive.append("worker exception: %s" % "".join(
            traceback.format_exception(type(e), e, e.__traceback__))[-3000:])
    with open(out, "w") as f:
        json.dump(res.dump(), f)


def drive(pid, tier, replay=None):
    t0 = time.time()
    pin_repo()
    bootstrap_deps()
    mod = importlib.import_module("rv.checks.%s" % pid.lower())
    if replay:
        return _replay(pid, mod, replay)
    shards = mod.plan(tier, SEED)
    timeout = getattr(mod, "SHARD_TIMEOUT", {}).get(tier, 900)
    with ThreadPoolExecutor(NCPU) as ex:
        outs = list(ex.map(lambda a: _run_worker(pid, tier, a[1], timeout, a[0]),
                           list(enumerate(shards))))

    if os.environ.get("VERIF_DEBUG"):
        for o in sorted(outs, key=lambda o: -o["wall"])[:8]:
            print("DEBUG shard %.1fs %s" % (o["wall"], json.dumps(o["shard"])[:150]))
    evaluations = 0
    hashes = set()
    overflow = 0
    counters, observed, monitors = {}, {}, {}
    samples, inconclusive, viols = [], [], []
    viol_counts = {}
    steps_total = steps_max = 0
    for o in outs:
        r = o["result"]
        if r is None or o["rc"] != 0:
            inconclusive.append("shard %s: rc=%s %s" % (
                json.dumps(o["shard"])[:120], o["rc"], o["stderr"][-1500:]))
        if r is None:
            continue
        evaluations += r["evaluations"]
        if len(hashes) < DISTINCT_CAP:
            hashes.update(r["hashes"])
        else:
            overflow += len(r["hashes"])
        overflow += r["hash_overflow"]
        for k, v in r["counters"].items():
            counters[k] = counters.get(k, 0) + v
        for k, v in r["observed"].items():
            observed.setdefault(k, set()).update(v)
        for k, v in r["monitors"].items():
            m = monitors.setdefault(k, [0, 0])
            m[0] += v[0]
            m[1] += v[1]
        for s in r["samples"]:
            if len(samples) < 12:
                samples.append(s)
        inconclusive.extend(r["inconclusive"])
        viols.extend(r["violations"])
        for k, v in r["viol_counts"].items():
            viol_counts[k] = viol_counts.get(k, 0) + v
        steps_total += r.get("steps_total", 0)
        steps_max = max(steps_max, r.get("steps_max", 0))

    # classify violations
    known = load_known(pid)
    known_hit = {}
    unknown = []
    for v in viols:
        hit = None
        for e in known:
            if sig_matches(e["match"], v["sig"]):
                hit = e
                break
        if hit is not None:
            known_hit.setdefault(hit["id"], [hit, 0, v])
            known_hit[hit["id"]][1] += 1
        else:
            unknown.append(v)

    # floors (a run that observed nothing is never "held")
    floors = getattr(mod, "FLOORS", {}).get(tier, {})
    floor_fail = []
    for name, need in floors.items():
        have = counters.get(name, 0)
        if name.startswith("monitor:"):
            have = monitors.get(name[8:], [0, 0])[0]
        if have < need:
            floor_fail.append("%s=%d < %d" % (name, have, need))

    level = getattr(mod, "LEVEL", "exploration")
    distinct = len(hashes)
    ev = {
        "property_id": pid,
        "tier": tier,
        "seed": SEED,
        "level": level,
        "coverage": {
            "evaluations": evaluations,
            "distinct_nontrivial": distinct,
            "distinct_note": ("distinct canonical case keys (64-bit hashes) merged "
                              "across shards; a LOWER BOUND: %d further cases were beyond "
                              "the per-shard / driver hash caps and are not counted"
                              % overflow),
            "rule": getattr(mod, "RULE", ""),
            "samples": samples or ["(none)"],
            "exhaustive": bool(getattr(mod, "EXHAUSTIVE", {}).get(tier, False)),
            "counters": counters,
            "monitors": {k: {"evaluations": v[0], "firings": v[1]}
                         for k, v in sorted(monitors.items())},
            "observed": {k: {"distinct": len(v), "values": sorted(v)[:60]}
                         for k, v in sorted(observed.items())},
            "sievelib_line_events": steps_total,
            "max_line_events_in_one_call": steps_max,
            "known_findings_hit": {k: v[1] for k, v in known_hit.items()},
            "violation_signatures": {k: v for k, v in sorted(viol_counts.items())[:80]},
            "inconclusive": inconclusive[:20],
            "floors": floors,
            "shards": len(shards),
            "repo": REPO,
        },
        "assumptions": list(getattr(mod, "ASSUMPTIONS", [])),
        "wall_s": round(time.time() - t0, 2),
        "violations": len(unknown),
    }
    evdir = os.environ.get("VERIF_EVIDENCE_DIR") or os.path.join(VERIF_DIR, "evidence")
    os.makedirs(evdir, exist_ok=True)
    evpath = os.path.join(evdir, "%s.json" % pid)
    with open(evpath, "w") as f:
        json.dump(ev, f, indent=1, sort_keys=True)

    for kid, (e, n, v) in sorted(known_hit.items()):
        n = sum(c for k, c in viol_counts.items()
                if sig_matches(e["match"], json.loads(k)))
        print("KNOWN-FINDING: property=%s %s [%s, observed %d times this run]" % (
            pid, e["what"], kid, n))
    print("%s %s: %d evaluations, %d distinct, %d shards, %.1fs, %d violation "
          "signatures (%d unlisted)" % (pid, tier, evaluations, distinct,
                                       len(shards), time.time() - t0,
                                       len(viol_counts), len(unknown)))
    if unknown:
        rdir = os.path.join(os.environ.get("VERIF_REPLAY_DIR") or
                            os.path.join(VERIF_DIR, "replays"), pid)
        os.makedirs(rdir, exist_ok=True)
        seen = set()
        unknown.sort(key=lambda v: len(json.dumps(v["witness"])))
        for v in unknown:
            key = json.dumps(v["sig"], sort_keys=True)
            if key in seen:
                continue
            seen.add(key)
            path = os.path.join(rdir, "%s.json" % hashlib.sha1(
                key.encode()).hexdigest()[:12])
            with open(path, "w") as f:
                json.dump({"property": pid, "tier": tier, "seed": SEED,
                           "sig": v["sig"], "witness": v["witness"]}, f, indent=1)
            print("VIOLATION property=%s replay=%s sig=%s" % (pid, path, key))
        return 1
    if inconclusive or floor_fail:
        print("INCONCLUSIVE property=%s %s %s" % (
            pid, "; ".join(floor_fail), " | ".join(i[:300] for i in inconclusive[:3])))
        return 2
    return 0


def _replay(pid, mod, path):
    with open(path) as f:
        rec = json.load(f)
    want = (rec.get("witness") or {}).get("interpreter_environment", "default") \
        if isinstance(rec.get("witness"), dict) else "default"
    if want != "default" and os.environ.get("VERIF_ENV_VARIANT_USED") != want:
        # the witness was observed under another interpreter environment: replay there
        env = dict(os.environ, VERIF_ENV_VARIANT_USED=want)
        flags = []
        if want == "ascii-locale":
            env.update(LC_ALL="C", LANG="C", PYTHONCOERCECLOCALE="0", PYTHONUTF8="0")
        elif want == "optimised":
            flags = ["-O"]
        p = subprocess.run([sys.executable] + flags + ["-m", "rv", pid, "--replay", path],
                           cwd=VERIF_DIR, env=env)
        return p.returncode
    res = Result()
    fn = getattr(mod, "replay", None)
    if fn is None:
        print("replay not supported for %s; witness:\n%s" % (
            pid, json.dumps(rec, indent=1)))
        return 2
    fn(rec["witness"], res)
    known = load_known(pid)
    allv = [v[1] for v in res._best.values()]
    bad = [v for v in allv
           if not any(sig_matches(e["match"], v["sig"]) for e in known)]
    for v in allv:
        print(json.dumps(v, sort_keys=True))
    if bad:
        print("VIOLATION property=%s replay=%s" % (pid, path))
        return 1
    print("replay: no unlisted violation reproduced")
    return 0


def split(n, k):
    """k (start, stop) ranges covering range(n)."""
    k = max(1, min(k, n))
    out, base, extra, s = [], n // k, n % k, 0
    for i in range(k):
        e = s + base + (1 if i < extra else 0)
        out.append((s, e))
        s = e
    return out


def minimise(toks, pred, budget=250):
    """Greedy token-level reduction: drop chunks while pred(tokens) stays true."""
    toks = list(toks)
    used = 0
    chunk = max(1, len(toks) // 2)
    while chunk >= 1 and used < budget:
        i = 0
        changed = False
        while i < len(toks) and used < budget:
            cand = toks[:i] + toks[i + chunk:]
            used += 1
            ok = False
            try:
                ok = bool(cand) and pred(cand)
            except Exception:
                ok = False
            if ok:
                toks = cand
                changed = True
            else:
                i += chunk
        if not changed:
            chunk //= 2
    return toks


def fork_call(fn, *a, alarm=120):
    """Run fn(*a) in an os.fork() child of this process; returns ('ok', value) or
    ('err', text).  The child never returns into the caller's control flow."""
    import pickle
    import signal
    r, w = os.pipe()
    pid = os.fork()
    if pid == 0:
        try:
            os.close(r)
            signal.alarm(alarm)
            try:
                out = ("ok", fn(*a))
            except BaseException as e:  # noqa
                out = ("err", "%s: %s" % (type(e).__name__, "".join(
                    traceback.format_exception(type(e), e, e.__traceback__))[-1500:]))
            with os.fdopen(w, "wb") as f:
                pickle.dump(out, f)
        finally:
            os._exit(0)
    os.close(w)
    with os.fdopen(r, "rb") as f:
        data = f.read()
    os.waitpid(pid, 0)
    if not data:
        return ("err", "child died without a result")
    return pickle.loads(data)
