"""W-FILT / W-HIST: generators of filter definitions and FiltersSet histories,
with the *expected* structural model of each definition (what the rendered script
must contain), written from the factory's documented input forms."""
from __future__ import annotations

import random

BENIGN = ["Sender", "Subject", "toto@toto.com", "INBOX", "Folder.Sub", "x y", "list-id",
          "2019-02-26", "hello", "*", "a@b.example", "X-Spam-Flag"]
SOFT = ["a,b", "a, b", "[x]", "]", "[", "a b,c", "été", "€uro", "ünï", " lead", "trail ",
        "a;b", "{x}", "#c", "(p)", "a:b", ":tagish", "100%", "тест", "日本", "two\r\nlines",
        "l1\nl2\n", "a\n.\nb", ".\nfirst line is a dot", "dot last\r\n.", "..", ".",
        # values that look like Sieve syntax without containing a quote or a backslash
        "text: I am away", "text:", "text:\nbye\n.\n; discard", "text:\n.\n", "text:\nbye\n.", "text:\r\nI am away\r\n.",
        "text:\nbye\n.\nstop;\n.", "[a", "a]",
        "if true { discard; }", "/* c */", "# c", "1K", "True", "any of",
        # characters str.splitlines()/strip() treat as line breaks or blanks, zero-width and
        # byte-order marks, NBSP, Kelvin sign / dotless i / sharp s (case mapping pitfalls)
        "a\x0bb", "f\x0cf", "x\x1cy", "n\x85l", "l\u2028s", "p\u2029s", "\ufeffbom first",
        "zero\u200bwidth", "nb\u00a0sp", "\u212aelvin", "d\u0131tless", "stra\u00dfe", "\u0130stanbul"]
LONG_SIZES = [1022, 1023, 1024, 1025, 1026, 2048, 4096, 5000]
HOSTILE = ['a"b', 'x"', 'a\\b', 'x\\', '\\"', 'a"; discard; #', '"]; stop; #'[1:],
           'a\nb', 'a\r\nb', 'a" , "b', 'q"] ["z', "a'b", ""]


# first elements of a condition / action tuple that the factory reads as its own keywords
KEYWORDS = {"true", "false", "exists", "notexists", "size", "envelope", "address", "body",
            "currentdate", "header", "not", "anyof", "allof", "hasflag"}


class Values:
    """kind: 'benign' | 'soft' (commas, brackets, spaces, non-ASCII) | 'hostile'
    (quotes, backslashes, newlines; never *starting* with a quote character)."""

    def __init__(self, rng, kind):
        self.rng = rng
        self.kind = kind
        self.made = []  # list objects handed out so far

    def long(self):
        """a value around the 1024-octet quoted-string limit some encoders switch at,
        built from this kind's own alphabet (so a lone-dot line, a quote, a comma can sit
        inside it)"""
        r = self.rng
        n = r.choice(LONG_SIZES)
        pool = BENIGN + (SOFT if self.kind != "benign" else []) + (
            HOSTILE[:10] if self.kind == "hostile" else [])
        out = "x"
        while len(out) < n:
            out += r.choice(pool) + r.choice([" ", "\n", "-"])
        return out[:n - 1] + "z"

    def wild(self):
        """text drawn from broad character classes (rv/textgen.py) instead of a pool"""
        from . import textgen
        ex = ["nul", "line-break"]
        if self.kind != "hostile":
            ex.append("dquote-backslash")
        t = textgen.text(self.rng, 1, 8, exclude=ex, first_not=('"', "'", ":"))
        if self.kind != "hostile":
            t = t.replace('"', "").replace("\\", "") or "w"
            if t[0] in "\"':":
                t = "w" + t
        if t in KEYWORDS or t.lower() in KEYWORDS:
            t = "w" + t
        return t

    def s(self):
        r = self.rng
        p = r.random()
        if p > 0.985:
            return self.long()
        if p > 0.93 and self.kind != "benign":
            return self.wild()
        if self.kind == "hostile" and p < 0.5:
            return r.choice(HOSTILE)
        if self.kind in ("soft", "hostile") and p < 0.8:
            return r.choice(SOFT)
        return r.choice(BENIGN)

    def lst(self, lo=1, hi=3):
        if self.made and self.rng.random() < 0.12:
            # the caller's own list object, used for a second slot (same object, not a copy)
            return self.rng.choice(self.made)
        out = [self.s() for _ in range(self.rng.randint(lo, hi))]
        self.made.append(out)
        if len(out) < 4 and self.rng.random() < 0.15:
            # an item given twice (equal by value, and the very same object)
            out.append(self.rng.choice(out))
        return out


MATCH = [":is", ":contains", ":matches"]


class Definition:
    __slots__ = ("conditions", "actions", "matchtype", "tests", "acts", "strings",
                 "numbers", "exts", "kinds", "_update", "_names", "_prefixes")

    def __init__(self):
        self.conditions = []
        self.actions = []
        self.matchtype = "anyof"
        self.tests = []  # expected [(negated?, test name)]
        self.acts = []  # expected action names
        self.strings = []  # expected decoded string literals (multiset)
        self.numbers = []
        self.exts = set()
        self.kinds = []


def gen_condition(rng, vals, d: Definition, kinds=None):
    kind = rng.choice(kinds or ["header", "header", "header-list", "exists", "size",
                                "envelope", "address", "address-list", "body",
                                "currentdate", "currentdate-value", "true", "false"])
    neg = rng.random() < 0.35
    mt = rng.choice(MATCH)
    if kind in ("header", "header-list", "envelope", "address", "address-list", "body",
                "currentdate") and rng.random() < 0.12:
        mt = ":regex"  # a match type that belongs to an extension, plain or negated
        d.exts.add("regex")
    tag = (":not" + mt[1:]) if neg else mt
    d.kinds.append("cond:" + kind + (":neg" if neg else "") + (":regex" if mt == ":regex" else ""))
    if kind == "header":
        n, v = vals.s(), vals.s()
        d.conditions.append((n, tag, v))
        d.tests.append((neg, "header"))
        d.strings += [n, v]
    elif kind == "header-list":
        n, v = vals.lst(), vals.lst()
        d.conditions.append((n, tag, v))
        d.tests.append((neg, "header"))
        d.strings += n + v
    elif kind == "exists":
        names = vals.lst(1, 4)
        d.conditions.append((("notexists" if neg else "exists"),) + tuple(names))
        d.tests.append((neg, "exists"))
        d.strings += names
    elif kind == "size":
        lim = rng.choice(["100k", "1", "10M", "2G", "4096", "0", 0, 1, 4096, 2 ** 31, 2 ** 63])
        d.conditions.append(("size", rng.choice([":over", ":under"]), lim))
        d.tests.append((False, "size"))
        d.numbers.append(lim)
        d.kinds[-1] = "cond:size"
    elif kind == "envelope":
        parts, v = vals.lst(1, 2), vals.lst()
        d.conditions.append(("envelope", tag, parts, v))
        d.tests.append((neg, "envelope"))
        d.strings += parts + v
        d.exts.add("envelope")
    elif kind == "address":
        part, v = vals.s(), vals.s()
        d.conditions.append(("address", tag, part, v))
        d.tests.append((neg, "address"))
        d.strings += [part, v]
    elif kind == "address-list":
        part, v = vals.lst(1, 2), vals.lst()
        d.conditions.append(("address", tag, part, v))
        d.tests.append((neg, "address"))
        d.strings += part + v
    elif kind == "body":
        v = vals.lst(1, 3)
        if rng.random() < 0.15:
            # a key that reads like a tag of the same test (its own match type, plain or
            # negated, or another one): after the match type every argument is a key
            v = list(v)  # (never edit a list object that other conditions may share)
            v[rng.randrange(len(v))] = rng.choice([mt, tag, ":is", ":contains", ":raw"])
            d.kinds.append("key-spelled-like-a-tag")
        d.conditions.append(("body", rng.choice([":raw", ":text"]), tag) + tuple(v))
        d.tests.append((neg, "body"))
        d.strings += v
        d.exts.add("body")
    elif kind == "currentdate":
        zone, part = rng.choice(["+0100", "-0500", vals.s()]), rng.choice(["date", "year", vals.s()])
        v = vals.lst(1, 2)
        if rng.random() < 0.15:
            v = list(v)
            v[rng.randrange(len(v))] = rng.choice([mt, tag, ":is", ":zone"])
            d.kinds.append("key-spelled-like-a-tag")
        d.conditions.append(("currentdate", ":zone", zone, tag, part) + tuple(v))
        d.tests.append((neg, "currentdate"))
        d.strings += [zone, part] + v
        d.exts.add("date")
    elif kind == "currentdate-value":
        zone, part = "+0100", "date"
        rel = rng.choice(["gt", "ge", "lt", "le", "eq", "ne"])
        v = vals.lst(1, 2)
        d.conditions.append(("currentdate", ":zone", zone, ":notvalue" if neg else ":value",
                             rel, part) + tuple(v))
        d.tests.append((neg, "currentdate"))
        d.strings += [zone, rel, part] + v
        d.exts.update(["date", "relational"])
        d.kinds[-1] = "cond:currentdate-value"
    else:
        d.conditions.append((kind,))
        d.tests.append((False, kind))
        d.kinds[-1] = "cond:" + kind


def gen_action(rng, vals, d: Definition, kinds=None):
    kind = rng.choice(kinds or ["fileinto", "fileinto", "redirect", "reject", "keep",
                                "keep-flags", "discard", "stop", "setflag", "addflag",
                                "removeflag", "flag-list", "vacation"])
    if kind == "fileinto":
        a = ["fileinto"]
        k = "act:fileinto"
        if rng.random() < 0.4:
            a.append(":copy")
            d.exts.add("copy")
            k += ":copy"
        if rng.random() < 0.4:
            a.append(":create")
            d.exts.add("mailbox")
            k += ":create"
        if rng.random() < 0.35:
            a.append(":flags")
            k += ":flags"
            d.exts.add("imap4flags")
            if rng.random() < 0.5:
                f = vals.s()
                a.append(f)
                d.strings.append(f)
                k += "-str"
            else:
                f = vals.lst()
                a.append(f)
                d.strings += f
                k += "-list"
        f = vals.s()
        a.append(f)
        d.strings.append(f)
        d.exts.add("fileinto")
        d.actions.append(tuple(a))
        d.acts.append("fileinto")
        d.kinds.append(k)
    elif kind == "redirect":
        a = ["redirect"]
        k = "act:redirect"
        if rng.random() < 0.5:
            a.append(":copy")
            d.exts.add("copy")
            k += ":copy"
        f = vals.s()
        a.append(f)
        d.strings.append(f)
        d.actions.append(tuple(a))
        d.acts.append("redirect")
        d.kinds.append(k)
    elif kind == "reject":
        f = vals.s()
        d.actions.append(("reject", f))
        d.strings.append(f)
        d.exts.add("reject")
        d.acts.append("reject")
        d.kinds.append("act:reject")
    elif kind in ("keep", "discard", "stop"):
        d.actions.append((kind,))
        d.acts.append(kind)
        d.kinds.append("act:" + kind)
    elif kind == "keep-flags":
        f = vals.lst()
        d.actions.append(("keep", ":flags", f))
        d.strings += f
        d.exts.add("imap4flags")
        d.acts.append("keep")
        d.kinds.append("act:keep:flags-list")
    elif kind in ("setflag", "addflag", "removeflag"):
        f = vals.s()
        d.actions.append((kind, f))
        d.strings.append(f)
        d.exts.add("imap4flags")
        d.acts.append(kind)
        d.kinds.append("act:" + kind)
    elif kind == "flag-list":
        name = rng.choice(["setflag", "addflag", "removeflag"])
        f = vals.lst()
        d.actions.append((name, f))
        d.strings += f
        d.exts.add("imap4flags")
        d.acts.append(name)
        d.kinds.append("act:%s-list" % name)
    else:
        a = ["vacation"]
        k = "act:vacation"
        tags = [":subject", ":days", ":seconds", ":from", ":addresses", ":handle", ":mime"]
        rng.shuffle(tags)
        for t in tags[:rng.randint(0, 4)]:
            if t == ":days" and ":seconds" in a or t == ":seconds" and ":days" in a:
                continue
            a.append(t)
            k += t
            if t in (":subject", ":from", ":handle"):
                f = vals.s()
                a.append(f)
                d.strings.append(f)
            elif t in (":days", ":seconds"):
                n = rng.choice([0, 1, 7, 30, 3600, 0])
                a.append(n)
                d.numbers.append(str(n))
                if t == ":seconds":
                    d.exts.add("vacation-seconds")
            elif t == ":addresses":
                if rng.random() < 0.5:
                    f = vals.lst()
                    a.append(f)
                    d.strings += f
                    k += "-list"
                else:
                    f = vals.s()
                    a.append(f)
                    d.strings.append(f)
        f = vals.s()
        a.append(f)
        d.strings.append(f)
        d.exts.add("vacation")
        d.actions.append(tuple(a))
        d.acts.append("vacation")
        d.kinds.append(k)


def gen_definition(rng, vkind, cond_kinds=None, act_kinds=None, ncond=None, nact=None):
    vals = Values(rng, vkind)
    d = Definition()
    d.matchtype = rng.choice(["anyof", "allof"])
    for _ in range(ncond if ncond is not None else rng.choice([1, 1, 2, 3, 4])):
        gen_condition(rng, vals, d, cond_kinds)
    for _ in range(nact if nact is not None else rng.choice([0, 1, 1, 2, 3])):
        gen_action(rng, vals, d, act_kinds)
    return d


NAME_POOL = ["a", "b", "c"]
NAMES_RICH = ["rule1", "Rule é", "filter #2", "x: y", "名前", "a-b_c.d", "UPPER lower",
              "n(1)", "50%", "tab\tname"[:3]]
DESCS = [None, "", "a description", "déscription ünï", "with # hash", "k: v; w",
         "#starts with a hash", "ends with a hash #", "##", "\"quoted\" and 'single'",
         "if true { stop; }", "Filter: not a marker", "x" * 200,
         "vt\x0bff\x0cfs\x1cnel\x85ls\u2028ps\u2029 inside", "\ufeffbom first", "nb\u00a0sp\u200bzw",
         "tab\tinside"]


def _map(x, f):
    if isinstance(x, str):
        return f(x)
    if isinstance(x, tuple):
        return tuple(_map(i, f) for i in x)
    if isinstance(x, list):
        return [_map(i, f) for i in x]
    return x


def neutralise(d: Definition, chars='"\\'):
    """Copy of d with the given characters replaced by '_' in every user string
    (counterfactual used to attribute a violation to missing escaping)."""
    def f(s):
        for c in chars:
            s = s.replace(c, "_")
        return s
    n = Definition()
    n.conditions = _map(d.conditions, f)
    n.actions = _map(d.actions, f)
    n.matchtype = d.matchtype
    n.tests = list(d.tests)
    n.acts = list(d.acts)
    n.strings = [f(x) for x in d.strings]
    n.numbers = list(d.numbers)
    n.exts = set(d.exts)
    n.kinds = list(d.kinds)
    if getattr(d, "_update", None) is not None:
        n._update = neutralise(d._update, chars)
    if getattr(d, "_names", None) is not None:
        n._names = d._names
    if getattr(d, "_prefixes", None) is not None:
        n._prefixes = d._prefixes
    return n
