"""Writes /verif/MANIFEST.json from the table below (kept next to the checks)."""
import json
import os
import sys

ROOT = os.path.dirname(os.path.dirname(os.path.abspath(__file__)))

# id -> (category, design section, technique, level text, level note)
CHECKS = {
    "C01": ("exploration", "DESIGN.md §2 C01",
            "runtime monitoring: reference-model oracle (R-SIEVE three-valued judge) + "
            "metamorphic verdict-invariance monitor over bounded-exhaustive token sequences, "
            "grammar-directed generation and single-edit mutation",
            "Every execution of the real Parser.parse is judged online against an independent "
            "RFC 5228 lexer/grammar/SPEC-table judge (ACCEPT/REJECT compared, UNSPEC not) and, "
            "independently, against its own verdict on case/whitespace/CRLF/comment rewrites. "
            "Held on the executions enumerated in the evidence; nothing is proved.",
            "Trusted: rv/rsieve.py (lexer, generic grammar, frozen SPEC table). Inputs outside "
            "the claim or where RFC and sievelib may legitimately differ are UNSPEC."),
    "C02": ("exploration", "DESIGN.md §2 C02",
            "runtime monitoring: icontract postconditions on the real Parser.parse, logical "
            "step budget via sys.monitoring LINE events, lexer-progress monitor, doubling "
            "experiments (line events, CPU time with 3-fold confirmation)",
            "Contracts decide 'returns exactly True/False, error/error_pos/result well formed'; "
            "the step budget decides hangs logically; scaling ratios decide super-linear cost. "
            "Workloads: token enumeration, byte-level mutation incl. invalid UTF-8 and "
            "truncation at every offset, one dimension of an ordinary script at numeric boundaries "
            "(255..259 items, 1023..1025/4095..4097/65536 octets, numbers of up to 20000 digits), "
            "bytes/bytearray/str/parse_file/debug-switch entry routes, identifiers taken "
            "from run-time introspection of sievelib.commands.",
            "Budget 20000+3000*len line events; CPU-time verdicts need 3 confirmations, "
            "otherwise inconclusive."),
    "C03": ("exploration", "DESIGN.md §2 C03",
            "runtime monitoring: token-conservation monitor + isomorphism with an independent "
            "generic-grammar tree over every accepted execution; entry-point differential "
            "(parse(bytes)/parse(str)/parse_file) and deferred re-read of Parser objects after "
            "other Parser objects ran",
            "For each accepted input the harness walks Parser.result with its own walker and "
            "checks (1) multiset of source tokens == multiset in the tree, (2) tree == R-SIEVE "
            "generic tree (flattened argument order, tests, blocks).",
            "Trusted: R-SIEVE lexer and generic parser. Repeated tag slots excluded."),
    "C04": ("exploration", "DESIGN.md §2 C04",
            "runtime monitoring: round-trip contract (serialise, re-parse, tree equality by "
            "decoded values, fixed point) + independent cross-parse by the reference model",
            "Each accepted script is serialised with the real tosieve(), re-parsed by the real "
            "parser and by R-SIEVE; trees are compared with string values decoded; the second "
            "serialisation must equal the first byte for byte. A third of the round trips "
            "re-parse with the Parser object that parsed the source, two thirds read the tree "
            "through its public getters before printing.",
            "Trusted: R-SIEVE decoding rules. Tagged arguments compared as unordered groups."),
    "C07": ("exploration", "DESIGN.md §2 C07",
            "runtime monitoring: independent pre-order gate walk over every accepted tree "
            "with a frozen construct->extension table; exact-message monitor on "
            "require-reduced valid scripts",
            "Accept direction: every accepted execution (irregular inputs included) is walked "
            "by the harness; each extension-bound command/tag/match type must have been "
            "preceded by a require naming it. Removal direction: for valid scripts (accepted "
            "by parser and reference model) each needed extension is removed and the exact "
            "message naming the first missing extension in script order is demanded. A third "
            "of the walks and half of the removal cases run on a Parser object that has "
            "accepted a script loading those extensions right before.",
            "Trusted: frozen extension table in rv/rsieve.py; first-missing extension computed "
            "by the reference judge."),
    "C18": ("exploration", "DESIGN.md §2 C18",
            "runtime monitoring: constructed-offender monitor (expected line/column/length "
            "known by construction) + suffix-independence metamorphic monitor",
            "Offending tokens of the property's first category are inserted at gaps of valid "
            "multi-line scripts (comments and multi-byte text before them, LF/CRLF) where they "
            "are invalid by construction; error/error_pos must equal the constructed position "
            "and be identical for 5 different suffixes. For single-edit mutants the weaker "
            "clause (not before the edit, independent of later text) is monitored.",
            "x is the first invalidating token by construction (prefix is a prefix of a script "
            "accepted by both parser and R-SIEVE)."),
    "C06": ("exploration", "DESIGN.md §3 C06",
            "runtime monitoring: output oracles on every rendered set (real parser, R-SIEVE "
            "strict judge, require-cover walk, structure/injection count against the expected "
            "model of the definition) with counterfactual attribution",
            "Sets are built through the public FiltersSet API from generated definitions "
            "(every condition/action kind, tags, value alphabets incl. quotes/backslashes/"
            "newlines) and from edit histories; each rendering is judged by four independent "
            "oracles. A violation that vanishes when quotes and backslashes are removed from "
            "the same definition is attributed to the missing-escaping mechanism.",
            "Trusted: R-SIEVE strict judge/generic parser, the expected-structure model in "
            "rv/filtgen.py. Values starting with a quote character excluded."),
    "C11": ("exploration", "DESIGN.md §3 C11",
            "runtime monitoring: save/reload differential + fixed-point monitor over sets "
            "reached by operation histories",
            "For each reachable set: render, parse with the real parser, from_parser_result, "
            "compare names/order/enabled/descriptions/requires and per-filter trees "
            "(R-SIEVE normal form), then reload the reloaded rendering and demand a byte-"
            "identical fixed point; default and custom marker prefixes.",
            "Names/descriptions single-line without marker prefixes; requires compared as sets."),
    "C12": ("exploration", "DESIGN.md §3 C12",
            "runtime monitoring: icontract class invariants on the real FiltersSet + lock-step "
            "postconditions against an executable list model (R-LIST); exhaustive short "
            "histories; isolation monitor over pairs of live sets",
            "All operation sequences up to length 3 (quick) / 4 (thorough) over 42 operations "
            "on 3 names, plus random sequences up to 25, are executed on the real class with "
            "invariants (unique names; enabled flag == is_filter_disabled == rendering wrapped "
            "in if-false) evaluated after every public call and every return value / exception "
            "/ order / enabled flag / getfilter content compared with the model step by step. "
            "Names are handed over as str and as UTF-8 bytes; pairs of live sets (fresh, or "
            "loaded from one Parser result) receive operations alternately and the untouched "
            "one must not change.",
            "Trusted: RList model in rv/factlab.py. Exhaustive only up to the stated length."),
    "C19": ("exploration", "DESIGN.md §3 C19",
            "runtime monitoring: read-back equality monitor over four views (original, "
            "disabled, re-enabled, reloaded) with counterfactual attribution",
            "Generated definitions from the supported forms are added through the public API "
            "and get_filter_conditions/actions/matchtype are compared with what was supplied, "
            "in each of the four views.",
            "Normal form: tuples, numbers by str(); quotes/backslashes are C06's."),
    "C13": ("exploration", "DESIGN.md §2 C13",
            "runtime monitoring: history differential against a pristine (forked, import-only) "
            "interpreter, cross-checked against real fresh interpreters",
            "Every step of every history (all ordered pairs over 44 scripts + 14 factory "
            "steps in reused-parser and fresh-parser mode, random longer histories) is executed "
            "in a forked child and its outcome (verdict, error text/position, tree, "
            "serialisation, hash comments; factory return/exception/rendering/read-back) "
            "compared with the outcome of the same step in a pristine child.",
            "fork() of an import-only parent == fresh interpreter (sampled cross-check each "
            "run)."),
    "C20": ("exploration", "DESIGN.md §2 C20",
            "runtime monitoring: definition-interpreter oracle (README format) + tree and "
            "round-trip monitors, each generated command class registered in its own forked "
            "child",
            "Generated argument definitions of the documented shape are registered with "
            "add_commands in an isolated child; every enumerated use and single-edit invalid "
            "variant is judged by an interpreter of the definition; accepted uses must be "
            "recorded under the defined slot names in source order, be isomorphic to the "
            "generic tree and survive serialise/re-parse; unregistered names must stay "
            "unknown.",
            "Trusted: the definition interpreter in rv/checks/c20.py. UNSPEC classes listed "
            "in the evidence assumptions."),
    "C05": ("exploration", "DESIGN.md §4 C05",
            "runtime monitoring: metamorphic monitor over recv() segmentations of a fixed "
            "server byte stream (scriptable recording transport) + sentinel operations + "
            "quiescence monitor",
            "For each (operation, reply stream) the real Client is run under every single cut, "
            "every pair of cuts for short streams, per-call caps 1/2/3/7/64 and random splits "
            "(replies sized on multiples of the 4096-octet read size included; streams with "
            "non-ASCII octets also with the client's debug switch on); "
            "the outcome of the operation and of two sentinel operations must equal the outcome "
            "under whole delivery, and no byte may be left unread.",
            "Baseline is single-segment delivery of the same stream; recv() never blocks."),
    "C08": ("exploration", "DESIGN.md §4 C08",
            "runtime monitoring: strict RFC 5804 command parser applied to the bytes recorded "
            "on the transport during each public call",
            "Every byte passed to sendall() during one call is parsed by an independent strict "
            "server-side parser: exactly one command, intended verb, arguments decode to the "
            "caller's values (quoted escapes, literal lengths, unquoted numbers) - or the call "
            "raised Error having written nothing.",
            "Trusted: parse_command in rv/msmodel.py. Server answers OK to everything."),
    "C09": ("exploration", "DESIGN.md §4 C09",
            "runtime monitoring: reference server that knows the status it sent (canned mode) "
            "+ sentinel operations; full product of the status-reply grammar",
            "All operation x OK/NO/BYE x response-code shape x text shape combinations are "
            "served to the real Client; return value / exception / errcode / errmsg must mirror "
            "the reply, and two sentinel operations must then receive their own replies.",
            "Lenient on errmsg representation (raw or unescaped, with or without literal CRLF)."),
    "C10": ("fault_enumeration", "DESIGN.md §4 C10",
            "runtime monitoring: trace specification checked on the recorded wire log "
            "(plain/TLS channel flag) and online by the reference server; exhaustive fault "
            "placement over the handshake",
            "Exhaustive product of STARTTLS availability, pre/post-TLS SASL lists, fault kind at "
            "each handshake step, TLS handshake outcome and preferred mechanism; plus call "
            "histories x every public callable found by introspection. Checks: no script verb "
            "before an OK to AUTHENTICATE on this connection, no AUTHENTICATE byte on the plain "
            "channel or before the post-TLS capabilities, mechanism from the post-TLS list, no "
            "credential bytes after a failed STARTTLS.",
            "The static clause of the property is approximated dynamically by invoking every "
            "public callable; private helpers unreachable from public methods are not covered."),
    "C14": ("fault_enumeration", "DESIGN.md §4 C14",
            "runtime monitoring: conservation monitor over the reference server's script store "
            "under exhaustively enumerated initial states and fault placements",
            "Every initial state (old/new absent/present/active, other scripts, old==new) x body "
            "x fault (each of the 5 steps answered NO/BYE/silence/EOF; thorough: pairs) is run "
            "through the real emulated renamescript; the store before and after must satisfy the "
            "conservation law and a True result must imply the complete rename. Plus drawn "
            "cases: names and bodies from broad character classes, up to three fault points, a "
            "fault at the second or third occurrence of a verb, names listed quoted or literal.",
            "R-MS enforces RFC rules; bodies literal; problems that vanish when the same case "
            "lists its names as quoted strings are attributed to C17's recorded listing findings "
            "(counterfactual run) and reported as KNOWN-FINDING."),
    "C15": ("exploration", "DESIGN.md §4 C15",
            "runtime monitoring: history checked step by step against an executable reference "
            "model of the server (result of each call, server-side protocol-violation log, "
            "quiescence)",
            "Random sessions (5-30 operations) run against R-MS with random encodings, "
            "response codes, permitted NO outcomes and recv() segmentation; after each step the "
            "client's result is compared with the model's answer to that command.",
            "Data equality under arbitrary name/body encodings is C17's; sessions there only "
            "check success/failure, violation log and quiescence. In the stratum where data is "
            "compared, names are quoted strings, except that inactive names not starting with a "
            "double quote are sent as literals 30 % of the time."),
    "C16": ("exploration", "DESIGN.md §4 C16",
            "runtime monitoring: SASL exchanges recorded by the reference server are decoded "
            "(PLAIN, LOGIN, OAUTHBEARER, DIGEST-MD5 with response recomputation) and compared "
            "with the selection rule and the caller's credentials",
            "Random configurations of announced mechanisms, preferred mechanism, unicode "
            "credentials, authorisation id and server verdict; mechanism choice, payload "
            "exactness, connect result and authenticated flag are checked.",
            "Trusted: SASL server sides and decoders in rv/msmodel.py."),
    "C17": ("exploration", "DESIGN.md §4 C17",
            "runtime monitoring: reference server store vs. data returned by the client, each "
            "value served in every encoding RFC 5804 permits, counterfactual attribution",
            "Bodies and name sets biased to protocol look-alikes are stored in R-MS and served "
            "as literal and (where legal) quoted strings; getscript/listscripts results are "
            "compared with the store line by line / name by name.",
            "Names non-empty UTF-8 without CR/LF/NUL; line-ending style ignored."),
}


def entry(pid):
    cat, ref, tech, text, note = CHECKS[pid]
    return {
        "property_id": pid,
        "quick_cmd": "/venv/bin/python -m rv %s --tier quick" % pid,
        "thorough_cmd": "/venv/bin/python -m rv %s --tier thorough" % pid,
        "evidence_file": "/verif/evidence/%s.json" % pid,
        "replay_cmd_template": "/venv/bin/python -m rv %s --replay {path}" % pid,
        "engine": "rv",
        "level_claimed": {"category": cat, "text": text, "design_ref": ref},
        "level_note": note,
        "technique": tech,
    }


def main():
    props = [json.loads(l)["id"] for l in open(os.path.join(ROOT, "properties.jsonl"))]
    na = []
    for p in props:
        if p not in CHECKS:
            na.append({"property_id": p, "reason": NOT_YET.get(
                p, "check not built yet in this session (planned, see DESIGN.md)")})
    m = {
        "version": 1,
        "setup_cmd": "/venv/bin/python -m rv.setup",
        "hooks": {
            "guard": "SIEVELIB_VERIF",
            "enable": "no source hooks are needed: every monitor attaches from the harness "
                      "(icontract decorators on the imported classes, sys.monitoring, a "
                      "recording transport); checks set SIEVELIB_VERIF=1 for uniformity only",
            "baseline_off_cmd": "cd /repo && env -u SIEVELIB_VERIF /venv/bin/python -m pytest "
                                "-ra -q -p no:cacheprovider --timeout=900 "
                                "--continue-on-collection-errors",
            "source_commits": [],
            "add_only": True,
        },
        "engines": [{
            "name": "rv",
            "path": "/verif/rv",
            "serves_properties": sorted(CHECKS),
            "kind_free_text": "runtime monitoring harness: workload generators drive the real "
                              "sievelib code under contracts, interpreter event hooks and a "
                              "recording transport; executable reference models act as online "
                              "oracles; three-valued verdicts; known-findings classifier",
        }],
        "checks": [entry(p) for p in props if p in CHECKS],
        "not_applicable": na,
        "notes": "All checks: cwd=/verif, honour VERIF_SEED, rebuild nothing (pure Python) and "
                 "import sievelib from /repo's working tree (VERIF_REPO overrides). Exit 0 held / "
                 "1 VIOLATION / 2 INCONCLUSIVE (monitor floors not reached or a worker died). "
                 "Known findings: /verif/known_findings.json.",
    }
    with open(os.path.join(ROOT, "MANIFEST.json"), "w") as f:
        json.dump(m, f, indent=1)
    print("MANIFEST.json: %d checks, %d not claimed" % (len(m["checks"]), len(na)))


NOT_YET = {}

if __name__ == "__main__":
    sys.exit(main())
