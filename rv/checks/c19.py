"""C19 — what you put into a filter is what you read back.

get_filter_conditions / get_filter_actions / get_filter_matchtype must return what was
supplied: on the original set, after disable, after re-enable, and on a set reloaded from
the rendered script.
"""
from __future__ import annotations

import copy
import random

from .. import factlab as fl, filtgen
from ..core import Result, split
from .. import parserlab as lab

LEVEL = "exploration"
RULE = ("definitions from the supported forms: header with string values, exists/notexists "
        "with 1-4 names, size, envelope with lists, address (string and list), body with "
        "transform, currentdate with/without relational, negated variants, 1-4 conditions, "
        "anyof/allof; actions with positional strings and value-less tags (fileinto/redirect "
        "with :copy/:create, reject, keep, discard, stop, set/add/removeflag, vacation "
        "[:mime]); values benign or soft (commas, spaces, brackets, non-ASCII); each read "
        "back in 4 views (original, disabled, re-enabled, reloaded) and, for half of them, after "
        "updatefilter on the disabled filter (same name / renamed / renamed then enabled); filter "
        "names (ASCII and non-ASCII) handed over as str or as UTF-8 bytes. Non-trivial = definition "
        "was built; distinct = distinct definitions.")
ASSUMPTIONS = [
    "normal form: tuples, numbers compared by str(), lists stay lists",
    "quotes and backslashes in values are C06's and are not generated here",
    "a violation that disappears when commas are replaced in the same definition is "
    "attributed to the comma re-splitting mechanism (counterfactual)",
]
FLOORS = {
    "quick": {"readbacks": 28000, "views:reloaded": 5000, "views:disabled": 7000,
              "multi-condition": 3000, "views:update": 3000, "names-as-bytes": 1500,
              "read-backs-after-a-refused-rename": 4000,
              "custom-marker-prefixes": 3000},
    "thorough": {"readbacks": 1500000, "views:reloaded": 300000, "views:disabled": 300000,
                 "multi-condition": 100000, "views:update": 100000, "names-as-bytes": 70000,
                 "read-backs-after-a-refused-rename": 150000},
}
SHARD_TIMEOUT = {"quick": 600, "thorough": 3000}

COND_KINDS = ["header", "header", "exists", "size", "envelope", "address", "address-list",
              "body", "currentdate", "currentdate-value"]
ACT_KINDS = ["fileinto", "redirect", "reject", "keep", "discard", "stop", "setflag",
             "addflag", "removeflag", "vacation-plain"]


NAME_PAIRS = [("f", "g"), ("règle é", "g"), ("f", "名前"), ("x: y", "filter #2")]


def plan(tier, seed):
    n = 10000 if tier == "quick" else 500000
    k = 16 if tier == "quick" else 64
    return [{"w": "defs", "n": e - s, "rs": seed * 1000003 + i}
            for i, (s, e) in enumerate(split(n, k))]


def gen_def(rng, vkind, single):
    vals = filtgen.Values(rng, vkind)
    d = filtgen.Definition()
    d.matchtype = rng.choice(["anyof", "allof"])
    for _ in range(1 if single else rng.choice([2, 2, 3, 4])):
        filtgen.gen_condition(rng, vals, d, COND_KINDS)
    for _ in range(1 if single else rng.choice([0, 1, 2, 3])):
        k = rng.choice(ACT_KINDS)
        if k == "vacation-plain":
            a = ["vacation"] + ([":mime"] if rng.random() < 0.5 else [])
            s = vals.s()
            a.append(s)
            d.actions.append(tuple(a))
            d.kinds.append("act:vacation")
        elif k == "fileinto":
            a = ["fileinto"]
            if rng.random() < 0.4:
                a.append(":copy")
            if rng.random() < 0.4:
                a.append(":create")
            a.append(vals.s())
            d.actions.append(tuple(a))
            d.kinds.append("act:fileinto")
        elif k == "redirect":
            a = ["redirect"] + ([":copy"] if rng.random() < 0.5 else []) + [vals.s()]
            d.actions.append(tuple(a))
            d.kinds.append("act:redirect")
        elif k in ("keep", "discard", "stop"):
            d.actions.append((k,))
            d.kinds.append("act:" + k)
        else:
            d.actions.append((k, vals.s()))
            d.kinds.append("act:" + k)
    return d


def nf(x):
    if isinstance(x, (tuple, list)) and not isinstance(x, str):
        t = [nf(i) for i in x]
        return tuple(t) if isinstance(x, tuple) else t
    if isinstance(x, (int, float)) and not isinstance(x, bool):
        return str(x)
    return x


REFUSED = [0]


def views(d):
    """-> list of (view name, FiltersSet or ('exc',..))"""
    out = []
    fs = fl.FiltersSet("t")
    r = fl.call(fs.addfilter, "f", list(d.conditions), list(d.actions), d.matchtype)
    if r[0] != "ret":
        return None, r
    out.append(("original", fs))
    return out, fs


def read(fs, name="f"):
    c = fl.call(fs.get_filter_conditions, name)
    a = fl.call(fs.get_filter_actions, name)
    m = fl.call(fs.get_filter_matchtype, name)
    return c, a, m


def compare(d, got):
    """-> list of (what, detail) mismatches"""
    c, a, m = got
    out = []
    wc = [nf(tuple(x)) for x in d.conditions]
    wa = [nf(tuple(x)) for x in d.actions]
    if c[0] != "ret":
        out.append(("conditions", "raised %s" % (c[1] if c[0] == "exc" else "hang"), repr(c)))
    elif c[1] is None or [nf(tuple(x)) for x in c[1]] != wc:
        out.append(("conditions", "differ", "got %r want %r" % (c[1], wc)))
    if a[0] != "ret":
        out.append(("actions", "raised %s" % (a[1] if a[0] == "exc" else "hang"), repr(a)))
    elif a[1] is None or [nf(tuple(x)) for x in a[1]] != wa:
        out.append(("actions", "differ", "got %r want %r" % (a[1], wa)))
    if m[0] != "ret" or m[1] != d.matchtype:
        out.append(("matchtype", "differ", "got %r want %r" % (m, d.matchtype)))
    # what was returned belongs to the caller: it is edited in place here (the usual "read
    # a rule, change it, write it back" flow); later read-backs must not see the edits
    for r in (c, a):
        if r[0] == "ret" and isinstance(r[1], list):
            _scribble(r[1])
    return out


def _scribble(x):
    for i, item in enumerate(list(x)):
        if isinstance(item, list):
            _scribble(item)
        elif isinstance(item, tuple):
            for sub in item:
                if isinstance(sub, list):
                    _scribble(sub)
    x.append("scribbled-by-the-caller")
    if len(x) > 1:
        x[0], x[-1] = x[-1], x[0]


def evaluate(d):
    """-> (built?, list of (view, what, how, detail))"""
    # names may be handed over as str or as UTF-8 bytes (the API takes both); what is read
    # back must not depend on it
    f, g = getattr(d, "_names", None) or ("f", "g")
    pre = getattr(d, "_prefixes", None) or ()
    fs = fl.FiltersSet("t", *pre)
    # the caller's own objects go in (a deep copy, so that the expectation stays intact) ...
    mine_c, mine_a = copy.deepcopy(list(d.conditions)), copy.deepcopy(list(d.actions))
    r = fl.call(fs.addfilter, f, mine_c, mine_a, d.matchtype)
    if r[0] != "ret":
        return False, [], r
    # ... and are the caller's to re-use afterwards: emptied and refilled in place here
    _scribble(mine_c)
    _scribble(mine_a)
    res = []
    for what, how, detail in compare(d, read(fs, f)):
        res.append(("original", what, how, detail))
    fl.call(fs.disablefilter, f)
    for what, how, detail in compare(d, read(fs, f)):
        res.append(("disabled", what, how, detail))
    text = fl.render(fs)
    fl.call(fs.enablefilter, f)
    for what, how, detail in compare(d, read(fs, f)):
        res.append(("re-enabled", what, how, detail))
    # updatefilter on a disabled filter (same name, then renamed): the new definition
    # must be what is read back, under the new name, disabled or not
    upd = getattr(d, "_update", None)
    if upd is not None:
        # an update the set refuses (renaming onto the name of another filter) leaves what is
        # read back under the old name as it was, enabled or disabled
        other = "another filter \u00a7"
        if fl.call(fs.addfilter, other, [("Subject", ":is", "o")], [("keep",)])[0] == "ret":
            for state in ("enabled", "disabled"):
                if state == "disabled":
                    fl.call(fs.disablefilter, f)
                r0 = fl.call(fs.updatefilter, f, other, list(upd.conditions), list(upd.actions),
                             upd.matchtype)
                if r0[0] == "exc" or r0 == ("ret", False):
                    REFUSED[0] += 1
                    for what, how, detail in compare(d, read(fs, f)):
                        res.append(("after-a-refused-rename-" + state, what, how, detail))
                if state == "disabled":
                    fl.call(fs.enablefilter, f)
            fl.call(fs.removefilter, other)
        fl.call(fs.disablefilter, f)
        r2 = fl.call(fs.updatefilter, f, f, list(upd.conditions), list(upd.actions),
                     upd.matchtype)
        if r2[0] != "ret" or r2[1] is not True:
            # a definition the builder accepts on its own must also be accepted as an update
            fresh = fl.FiltersSet("fresh")
            if fl.call(fresh.addfilter, "x", list(upd.conditions), list(upd.actions),
                       upd.matchtype)[0] == "ret":
                res.append(("updated-while-disabled", "update", "refused",
                            repr(r2)[:200]))
        if r2[0] == "ret":
            for what, how, detail in compare(upd, read(fs, f)):
                res.append(("updated-while-disabled", what, how, detail))
            r3 = fl.call(fs.updatefilter, f, g, list(d.conditions), list(d.actions),
                         d.matchtype)
            if r3[0] != "ret" or r3[1] is not True:
                res.append(("renamed-while-disabled", "update", "refused", repr(r3)[:200]))
            if r3[0] == "ret":
                for what, how, detail in compare(d, read(fs, g)):
                    res.append(("renamed-while-disabled", what, how, detail))
                if fl.call(fs.getfilter, f) != ("ret", None):
                    res.append(("renamed-while-disabled", "old-name", "still-present", "-"))
                fl.call(fs.enablefilter, g)
                for what, how, detail in compare(d, read(fs, g)):
                    res.append(("renamed-then-enabled", what, how, detail))
                fl.call(fs.updatefilter, g, f, list(d.conditions), list(d.actions),
                        d.matchtype)
    reloaded = False
    t = fl.render(fs)
    if t[0] == "ret":
        p = lab.sl_parser.Parser()
        o = lab.parse(t[1].encode("utf-8"), parser=p)
        if o.verdict() is not True:
            # no quotes or backslashes are generated here: a rendering the parser refuses
            # means the set cannot be read back at all
            res.append(("reloaded", "script", "does-not-parse",
                        "%r / %r" % (t[1][:200], getattr(p, "error", None))))
        if o.verdict() is True:
            b = fl.FiltersSet("r", *pre)
            if fl.call(b.from_parser_result, p)[0] == "ret":
                reloaded = True
                for what, how, detail in compare(d, read(b, fl._m(f))):
                    res.append(("reloaded", what, how, detail))
                # second generation: the reloaded set is saved and loaded once more
                t2 = fl.render(b)
                p2 = lab.sl_parser.Parser()
                if t2[0] != "ret" or lab.parse(t2[1].encode("utf-8"), parser=p2).verdict() is not True:
                    res.append(("reloaded-twice", "script", "does-not-parse",
                                repr(t2)[:200] + " " + repr(getattr(p2, "error", None))))
                else:
                    c2 = fl.FiltersSet("r2", *pre)
                    if fl.call(c2.from_parser_result, p2)[0] == "ret":
                        for what, how, detail in compare(d, read(c2, fl._m(f))):
                            res.append(("reloaded-twice", what, how, detail))
    return True, res, reloaded


def cond_kind_of(d, what):
    ks = sorted({k.split(":")[1] for k in d.kinds if k.startswith("cond:" if what == "conditions"
                                                                 else "act:")})
    return "+".join(ks)


def run_shard(tier, shard, res: Result):
    rng = random.Random(shard["rs"])
    for i in range(shard["n"]):
        vkind = rng.choice(["benign", "soft"])
        single = rng.random() < 0.6
        d = gen_def(rng, vkind, single)
        if rng.random() < 0.5:
            d._update = gen_def(rng, vkind, True)
            res.count("views:update")
        pair = rng.choice(NAME_PAIRS)
        if rng.random() < 0.3:
            pair = tuple(n.encode("utf-8") if rng.random() < 0.7 else n for n in pair)
            if any(isinstance(n, bytes) for n in pair):
                res.count("names-as-bytes")
        d._names = pair
        if rng.random() < 0.4:
            # the optional marker prefixes of the constructor (incl. ones with characters
            # that are special to re / format strings)
            from .c11 import PREFIXES
            d._prefixes = rng.choice(PREFIXES[1:])
            res.count("custom-marker-prefixes")
        built, viols, extra = evaluate(d)
        res.counters["read-backs-after-a-refused-rename"] = REFUSED[0]
        wit = {"conditions": d.conditions, "actions": d.actions, "matchtype": d.matchtype,
               "names": list(d._names), "prefixes": list(getattr(d, "_prefixes", None) or ())}
        if getattr(d, "_update", None) is not None:
            wit["update"] = {"conditions": d._update.conditions, "actions": d._update.actions,
                             "matchtype": d._update.matchtype}
        if not built:
            res.count("refused")
            res.case(repr(wit), nontrivial=False)
            continue
        res.count("readbacks", 3 + (1 if extra else 0))
        res.count("views:disabled")
        if extra:
            res.count("views:reloaded")
        if not single:
            res.count("multi-condition")
        res.case(repr(wit))
        for k in d.kinds:
            res.observe("kinds", k)
        res.monitor("readback-equality", bool(viols))
        if viols:
            # counterfactual: same definition without commas
            cause = "-"
            if any("," in s for s in _strings(wit)):
                d2 = filtgen.neutralise(d, ",")
                b2, v2, _ = evaluate(d2)
                if b2 and not v2:
                    cause = "comma-in-value"
            seen = set()
            for view, what, how, detail in viols:
                kind = cond_kind_of(d, what) if single else "multi"
                sig = {"what": what, "how": how, "kind": kind if cause == "-" else "any",
                       "cause": cause}
                if cause == "-" and view in ("disabled", "reloaded", "re-enabled") and \
                        ("original", what, how) in {(v[0], v[1], v[2]) for v in viols}:
                    continue  # same failure already reported for the original view
                if cause == "-" and view != "original":
                    sig["view"] = view
                key = repr(sig)
                if key in seen:
                    continue
                seen.add(key)
                res.violation(sig, dict(wit, view=view, detail=detail))
        if i % 499 == 0:
            res.sample({"workload": "defs", "definition": wit}, 3)


def _strings(x):
    if isinstance(x, str):
        yield x
    elif isinstance(x, dict):
        for v in x.values():
            yield from _strings(v)
    elif isinstance(x, (list, tuple)):
        for v in x:
            yield from _strings(v)


def replay(witness, res: Result):
    d = filtgen.Definition()
    def tup(x):
        return tuple(tup(i) if isinstance(i, list) and False else i for i in x)
    d.conditions = [tuple(c) for c in witness["conditions"]]
    d.actions = [tuple(a) for a in witness["actions"]]
    d.matchtype = witness["matchtype"]
    from ..core import unjson_bytes
    if witness.get("prefixes"):
        d._prefixes = tuple(witness["prefixes"])
    if witness.get("names"):
        d._names = tuple(unjson_bytes(n) for n in witness["names"])
    if witness.get("update"):
        u = filtgen.Definition()
        u.conditions = [tuple(c) for c in witness["update"]["conditions"]]
        u.actions = [tuple(a) for a in witness["update"]["actions"]]
        u.matchtype = witness["update"]["matchtype"]
        d._update = u
    built, viols, extra = evaluate(d)
    for v in viols:
        print(v)
        res.violation({"what": v[1], "how": v[2], "kind": "replay", "cause": "-"},
                      {"view": v[0], "detail": v[3]})
