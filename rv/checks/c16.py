"""C16 — SASL: the right mechanism, carrying exactly the caller's credentials.

The AUTHENTICATE exchange recorded by R-MS is decoded by R-SASL (base64, NUL-separated PLAIN,
two-step LOGIN, RFC 7628 OAUTHBEARER with saslname unescaping, RFC 2831 DIGEST-MD5 response
recomputed by the server) and compared with the selection rule and the caller's credentials.
"""
from __future__ import annotations

import base64
import itertools
import random

from .. import mslab, msmodel as ms, textgen
from ..core import Result, split

LEVEL = "exploration"
RULE = ("announced mechanism lists: random subsets/orders of {DIGEST-MD5, PLAIN, LOGIN, "
        "OAUTHBEARER, SCRAM-SHA-1, GSSAPI and unimplemented names that contain an implemented "
        "one: PLAIN-CLIENTTOKEN, XLOGIN, X-PLAIN-SUBMIT, OAUTHBEARER-X, DIGEST-MD5-SESS, "
        "LOGIN2} incl. the empty list and a missing SASL capability "
        "x authmech in {None, DIGEST-MD5, PLAIN, LOGIN, OAUTHBEARER, X-UNKNOWN} x credentials "
        "(ASCII, non-ASCII, comma, equals sign, double quote, space, long; NUL-free) x "
        "authorisation id {empty, set} x server verdict {accept, NO, BYE}; a quarter of the "
        "connects use STARTTLS, where the list above is the one announced after the handshake "
        "and the clear-text announcement is the same, another, the full or no list; the "
        "DIGEST-MD5 challenge offers a realm, another realm, an empty one or none, in random "
        "order within one process. Non-trivial = a "
        "mechanism was expected to be used; distinct = distinct configurations.")
ASSUMPTIONS = [
    "R-MS's SASL server sides and decoders (rv/msmodel.py) are the oracle",
    "OAUTHBEARER: when an authorisation id is given, either identity in a= is accepted",
    "the server accepts exactly the credentials it is configured with",
]
FLOORS = {"quick": {"connects": 18000, "connects-with-starttls": 3500,
                    "connects-on-a-used-client": 3000,
                    "starttls:no-SASL-line-after-handshake": 200, "starttls:lists-differ": 1500, "mech:PLAIN": 600, "mech:LOGIN": 600,
                    "mech:OAUTHBEARER": 600, "mech:DIGEST-MD5": 600, "no-mechanism": 600},
          "thorough": {"connects": 1800000, "connects-with-starttls": 350000,
                       "starttls:no-SASL-line-after-handshake": 20000,
                       "starttls:lists-differ": 150000, "mech:PLAIN": 100000, "mech:LOGIN": 100000,
                       "mech:OAUTHBEARER": 100000, "mech:DIGEST-MD5": 100000,
                       "no-mechanism": 100000}}
SHARD_TIMEOUT = {"quick": 600, "thorough": 3000}

IMPLEMENTED = ["DIGEST-MD5", "PLAIN", "LOGIN", "OAUTHBEARER"]
ALL = IMPLEMENTED + ["SCRAM-SHA-1", "GSSAPI", "PLAIN-CLIENTTOKEN", "XLOGIN", "X-PLAIN-SUBMIT",
                     "OAUTHBEARER-X", "DIGEST-MD5-SESS", "LOGIN2"]
LOGINS = ["user", "user@example.com", "üser", "a,b", "a=b", 'q"q', "with space", "x" * 80,
          "名前", "back\\slash", "=2C", "u,=v"]
PASSWORDS = ["secret", "pässwörd €", "p,w=d", 'p"w', "", " lead", "y" * 120, "tok.en-123_~+/=",
             # secrets that look like the wire syntax they are embedded in
             "Bearer abc", "Bearer ", "bearer x", "auth=Bearer x", "Basic dTpw", "n,a=x,",
             "dTpw", "=", "host=h", "Username:", "{5}", '"quoted"']
AUTHZ = ["", "", "admin", "ädmin", "a,b=c"]


CHARS = list("abcXYZ019 ,=\"\\'@.:;/+-_~%&<>()[]{}") + ["é", "ü", "€", "名", "前", "\U0001F600", "ß",
                                                       "\u00a0", "\u2028", "\t"]


def rand_text(rng, lo, hi):
    if rng.random() < 0.4:
        # broad character classes; NUL and the other C0 controls are outside the claim
        t = textgen.text(rng, max(lo, 1), max(hi // 2, 1), exclude=["nul", "control", "line-break"])
        t = "".join(ch for ch in t if ord(ch) >= 32 and ch != "\x7f")
        if t or lo == 0:
            return t
    return "".join(rng.choice(CHARS) for _ in range(rng.randint(lo, hi)))


def plan(tier, seed):
    n = 20000 if tier == "quick" else 2000000
    k = 16 if tier == "quick" else 64
    return [{"w": "cfg", "n": e - s, "rs": seed * 1000003 + i}
            for i, (s, e) in enumerate(split(n, k))]


def expected_mech(announced, authmech):
    if announced is None:
        return None
    if authmech in IMPLEMENTED:
        return authmech if authmech in announced else None
    for m in IMPLEMENTED:
        if m in announced:
            return m
    return None


def run_shard(tier, shard, res: Result):
    rng = random.Random(shard["rs"])
    for i in range(shard["n"]):
        k = rng.choice([0, 1, 1, 2, 3, 4, 6, 8])
        announced = rng.sample(ALL, k)
        if rng.random() < 0.08:
            announced = None
        authmech = rng.choice([None, None, "DIGEST-MD5", "PLAIN", "LOGIN", "OAUTHBEARER",
                               "X-UNKNOWN"])
        login, pw, authz = rng.choice(LOGINS), rng.choice(PASSWORDS), rng.choice(AUTHZ)
        if rng.random() < 0.4:
            login = rand_text(rng, 1, 14)
            pw = rand_text(rng, 0, 20)
            if rng.random() < 0.3:
                authz = rand_text(rng, 1, 10)
        if rng.random() < 0.12:
            authz = login  # the authorisation id given explicitly although equal to the login
            res.count("authz-equals-login")
        verdict = rng.choice(["accept", "accept", "wrong-password", "NO", "BYE"])
        users = {login.encode(): (pw if verdict != "wrong-password" else pw + "x").encode()}
        if authz:
            users[authz.encode()] = users[login.encode()]
        faults = {}
        if verdict in ("NO", "BYE"):
            faults["auth-verdict"] = verdict
        realm = rng.choice([b"example.org", b"example.org", None, b"", b"other realm"])
        res.observe("digest-realm-in-challenge", repr(realm))
        shuffle = rng.random() < 0.6
        starttls = rng.random() < 0.25
        if starttls:
            # what counts is what the server announces once TLS is up; before that it may
            # have announced anything (the same list, another one, nothing)
            res.count("connects-with-starttls")
            post = announced
            k2 = rng.choice([0, 1, 2, 4])
            pre = rng.choice([post, rng.sample(ALL, k2), list(IMPLEMENTED), None])
            if post is None:
                res.count("starttls:no-SASL-line-after-handshake")
            if pre != post:
                res.count("starttls:lists-differ")
            srv = ms.Server(users=users, sasl=pre, post_tls_caps="absent" if post is None else post,
                            faults=faults, starttls=True, digest_realm=realm,
                            encodings=rng.choice(["quoted", "literal", "mixed"]))
            srv.digest_shuffle, srv.rng = shuffle, random.Random(rng.randrange(1 << 30))
            sess = mslab.Session(srv)
            if i % 2:
                out = sess.call("connect", login, pw, authz, True, authmech)
            else:
                out = sess.call("connect", login, pw, authz_id=authz, authmech=authmech,
                                starttls=True)
        else:
            srv = ms.Server(users=users, sasl=announced, faults=faults, starttls=False,
                            digest_realm=realm,
                            encodings=rng.choice(["quoted", "literal", "mixed"]))
            srv.digest_shuffle, srv.rng = shuffle, random.Random(rng.randrange(1 << 30))
            sess = mslab.Session(srv)
            if rng.random() < 0.3:
                # the same Client object was used before, against a server that announced
                # everything and then refused / broke off: nothing of that may be remembered
                res.count("connects-on-a-used-client")
                how = rng.choice(["wrong-password", "auth-NO", "auth-BYE", "greeting-BYE", "ok"])
                f0 = {"auth-verdict": how[5:]} if how.startswith("auth-") else (
                    {"greeting": "BYE"} if how == "greeting-BYE" else {})
                srv0 = ms.Server(users={b"someone": b"else"} if how != "ok" else users,
                                 sasl=list(IMPLEMENTED), faults=f0, starttls=False)
                sess.server = srv0
                sess.call("connect", "someone" if how != "ok" else login,
                          "x" if how != "ok" else pw)
                sess.server = srv
                sess.wire = ms.Wire()
            if i % 2:
                out = sess.call("connect", login, pw, authz, False, authmech)
            else:
                out = sess.call("connect", login, pw, authz_id=authz, authmech=authmech)
        want = expected_mech(announced, authmech)
        res.count("connects")
        res.count("mech:%s" % want if want else "no-mechanism")
        res.case(repr((announced, authmech, login, pw, authz, verdict)), nontrivial=bool(want))
        attempts = [e for e in srv.log if e[0] == "auth-attempt"]
        creds = [e for e in srv.log if e[0] == "auth-creds"]
        sent = sess.wire.sent()
        wit = {"announced": announced, "starttls": starttls, "digest_realm": repr(realm),
               "announced_before_tls": srv.sasl if starttls else None, "authmech": authmech, "login": login, "password": pw,
               "authz_id": authz, "verdict": verdict, "outcome": repr(out)[:200],
               "attempts": [a[1] for a in attempts], "sent": sent[:300],
               "server_violations": srv.violations[:3]}
        problems = []
        used = [a[1] for a in attempts]
        if want is None:
            if used:
                problems.append(("mechanism-used-although-none-qualifies", used[0]))
            ok_fail = out == ("ret", False) or (out[0] == "exc" and out[1] == "Error")
            if not ok_fail:
                problems.append(("no-mechanism-but-connect-did-not-fail",
                                 out[1] if out[0] == "exc" else repr(out[1])))
            for secret, label in ((login, "login"), (pw, "password")):
                if len(secret) >= 4 and (base64.b64encode(secret.encode()) in sent
                                         or secret.encode() in sent):
                    problems.append(("credentials-sent-without-mechanism", label))
        else:
            if used != [want]:
                problems.append(("wrong-mechanism-choice", "%s instead of %s" % (
                    used, want)))
            elif out[0] != "ret":
                if not (verdict == "BYE" and out[0] == "exc" and out[1] == "Error"):
                    problems.append(("connect-raised:%s" % (
                        out[1] if out[0] == "exc" else "hang"), want))
            else:
                c = creds[-1][2] if creds else None
                accepted = srv.authenticated
                if srv.violations:
                    problems.append(("malformed-exchange", want))
                elif c is None:
                    if verdict in ("accept", "wrong-password"):
                        problems.append(("payload-not-decodable", want))
                else:
                    lb, pb, ab = login.encode(), pw.encode(), authz.encode()
                    if want == "OAUTHBEARER":
                        if c["login"] not in ((lb, ab) if authz else (lb,)):
                            problems.append(("identity-differs", want))
                        if c["password"] != pb:
                            problems.append(("secret-differs", want))
                    elif want == "DIGEST-MD5":
                        if c["login"] != lb:
                            problems.append(("identity-differs", want))
                        if c.get("authzid", b"") != ab:
                            problems.append(("authzid-differs", want))
                    else:
                        if c["login"] != lb:
                            problems.append(("identity-differs", want))
                        if c["password"] != pb:
                            problems.append(("secret-differs", want))
                        if want == "PLAIN" and c["authzid"] != ab:
                            problems.append(("authzid-differs", want))
                if verdict == "accept" and not accepted and not problems:
                    problems.append(("server-rejected-correct-credentials", want))
                if bool(out[1]) != bool(accepted) or out[1] not in (True, False):
                    problems.append(("result-vs-server-verdict", "%r vs accepted=%r" % (
                        out[1], accepted)))
                if bool(sess.client.authenticated) != bool(accepted):
                    problems.append(("authenticated-flag", "%r vs %r" % (
                        sess.client.authenticated, accepted)))
        res.monitor("sasl-exchange", bool(problems))
        special = "+".join(sorted({n for n, ch in (("comma", ","), ("equals", "="),
                                                   ("dquote", '"'), ("backslash", "\\"))
                                   if ch in login or ch in authz}))
        for what, detail in problems[:2]:
            sig = {"problem": what, "mech": want or "-"}
            if what in ("identity-differs", "payload-not-decodable", "malformed-exchange") \
                    and want == "OAUTHBEARER":
                sig["identity-chars"] = special or "plain"
            res.violation(sig, dict(wit, detail=detail))
        if i % 499 == 0:
            res.sample({"announced": announced, "authmech": authmech, "login": login,
                        "expected_mechanism": want, "sent": sent[:160]}, 3)
