"""C10 — no script command before authentication; no credentials before TLS.

Trace specification over the M-WIRE log (plain / TLS channel flag) and R-MS's connection
state, checked online by the server model and offline on the log:
 (a) a script-management verb is only ever written after an AUTHENTICATE exchange on *this*
     connection ended with OK; otherwise the public call raises Error and writes nothing;
 (b) with starttls=True no AUTHENTICATE byte travels on the plain channel, none on the TLS
     channel before the post-handshake capabilities were read, and the mechanism is one
     announced *after* the handshake;
 (c) a refused / failed / unavailable STARTTLS makes connect fail without any
     credential-bearing byte in the log.
"""
from __future__ import annotations

import base64
import inspect
import itertools
import random

from .. import mslab, msmodel as ms
from ..core import Result, split

LEVEL = "fault_enumeration"
RULE = ("exhaustive product for connect(starttls=True/False/1): STARTTLS capability {yes,no} x "
        "pre/post-TLS SASL lists {equal, differing, post empty, no SASL line after TLS, only "
        "look-alike names after TLS} x fault at {greeting, "
        "STARTTLS reply, post-TLS capabilities, authentication verdict} in {none, NO, BYE, "
        "silence, eof, malformed; at the STARTTLS reply also: OK followed in clear text by a "
        "capability listing naming another mechanism} x TLS handshake outcome {ok, SSLError, "
        "SSLCertVerificationError, OSError} x authmech {None, PLAIN, LOGIN}; and call "
        "histories {never connected, connect failed at each step, authentication refused, "
        "authenticated, after logout, authenticated then reconnect refused} x every public "
        "callable of Client found by introspection (arguments synthesised from the "
        "signature) - both enumerated completely in both tiers; plus random histories of "
        "3-10 steps on one client object mixing connects (random fault / TLS outcome / SASL "
        "lists) with calls of random public callables (quick 1 500, thorough 100 000). "
        "Non-trivial = every case; distinct = distinct configurations / histories.")
ASSUMPTIONS = [
    "half of the connect calls pass their arguments positionally in the documented order "
    "connect(login, password, authz_id, starttls, authmech) of the pinned API",
    "the transport records every byte written with the channel (plain/TLS) it was written on",
    "credential-bearing = the base64 or raw form of login / password / PLAIN payload",
    "private helpers (names starting with '_') that no public method reaches are not "
    "exercised; methods added later are picked up by introspection",
]
EXHAUSTIVE = {"quick": False, "thorough": False}
FLOORS = {"quick": {"connect-configurations": 2800, "tls-handshakes": 600,
                    "history-calls": 150, "callables": 10, "random-histories": 1200,
                    "refused-logins-in-every-reply-shape": 300},
          "thorough": {"connect-configurations": 2800, "tls-handshakes": 600,
                       "history-calls": 150, "callables": 10, "random-histories": 450000,
                       "refused-logins-in-every-reply-shape": 300}}
SHARD_TIMEOUT = {"quick": 600, "thorough": 3000}

LOGIN, PW = "alice-login", "s3cr3t-passw0rd"
FAULTS = [None, "NO", "BYE", "silence", "eof", "malformed"]
INJECT = "OK+plaintext-listing"  # STARTTLS step only: clear-text bytes behind the OK
SASLS = [(("PLAIN", "LOGIN"), None), (("PLAIN", "LOGIN"), ("LOGIN",)),
         (("PLAIN",), ("LOGIN", "PLAIN")), (("PLAIN", "LOGIN"), ()),
         (("LOGIN",), ("PLAIN",)),
         # after TLS: no SASL line at all / only mechanisms whose names merely contain the
         # name of an implemented one
         (("PLAIN", "LOGIN"), "absent"), (("PLAIN", "LOGIN"), ("X-PLAIN-SUBMIT", "GSSAPI")),
         (("PLAIN",), ("XLOGIN2", "PLAIN-CLIENTTOKEN")),
         (("DIGEST-MD5", "PLAIN"), ("DIGEST-MD5-SESS", "XOAUTHBEARER2"))]
IMPLEMENTED = ("DIGEST-MD5", "PLAIN", "LOGIN", "OAUTHBEARER")


def nothing_usable(post):
    """the post-handshake listing offers no mechanism the client implements"""
    return post is not None and (post == "absent" or not any(m in IMPLEMENTED for m in post))
TLS = ["ok", "SSLError", "SSLCertVerificationError", "OSError"]


def connect_cases():
    out = []
    for starttls, cap, sasl, tls, mech in itertools.product(
            (True, False, 1), (True, False), range(len(SASLS)), TLS, (None, "PLAIN", "LOGIN")):
        if not starttls and tls != "ok":
            continue
        for step in ("greeting", "STARTTLS", "post-tls-caps", "auth-verdict"):
            for f in FAULTS + ([INJECT] if step == "STARTTLS" else []):
                if f is None and step != "greeting":
                    continue
                if not starttls and step in ("STARTTLS", "post-tls-caps"):
                    continue
                out.append((starttls, cap, sasl, tls, mech, step, f))
    return out


def plan(tier, seed):
    n = len(connect_cases())
    shards = [{"w": "connect", "range": [s, e]} for s, e in split(n, 15)]
    shards.append({"w": "histories"})
    shards.append({"w": "reply-shapes"})
    nr = 1500 if tier == "quick" else 500000
    for i, (s, e) in enumerate(split(nr, 8 if tier == "quick" else 48)):
        shards.append({"w": "random-histories", "n": e - s, "rs": seed * 1000003 + i})
    return shards


def secrets():
    s = []
    for raw in (LOGIN.encode(), PW.encode(), b"\0" + LOGIN.encode() + b"\0" + PW.encode()):
        s.append(raw)
        s.append(base64.b64encode(raw))
    # base64 of a shifted alignment of the password inside PLAIN payloads
    return s


def check_trace(sess, srv, starttls, out, res, wit, expect_fail):
    """Offline check of the wire log. -> list of (rule, detail)"""
    problems = []
    ev = sess.wire.events
    tls_at = next((i for i, e in enumerate(ev) if e[2] == "tls-established"), None)
    auth_sends = [i for i, e in enumerate(ev) if e[2] == "send" and b"AUTHENTICATE" in e[3].upper()]
    if starttls:
        for i in auth_sends:
            if ev[i][1] == "plain":
                problems.append(("authenticate-on-plain-channel", "event %d" % i))
        if tls_at is not None:
            caps_read = [i for i, e in enumerate(ev)
                         if i > tls_at and e[2] == "recv" and b"TLS negotiation" in e[3]]
            for i in auth_sends:
                if i > tls_at and (not caps_read or i < caps_read[0]):
                    # allowed only if nothing had to be read (caps never sent)
                    problems.append(("authenticate-before-post-tls-capabilities",
                                     "event %d" % i))
        for v in srv.violations:
            if "not announced" in v:
                problems.append(("mechanism-not-from-post-tls-capabilities", v[:80]))
    blob = sess.wire.sent()
    if expect_fail:
        # "fails" = returns False or raises (whatever the exception type)
        ok_fail = out == ("ret", False) or out[0] == "exc"
        if not ok_fail:
            problems.append(("connect-did-not-fail", "hang" if out[0] == "hang"
                             else repr(out[1])))
        for s in secrets():
            if s in blob:
                problems.append(("credentials-sent-although-tls-failed", "-"))
                break
        if sess.client.authenticated:
            problems.append(("authenticated-flag-after-failed-connect", "-"))
    for v in srv.violations:
        if "before successful AUTHENTICATE" in v:
            problems.append(("script-command-before-authentication", v[:60]))
    return problems


CALLS = [0]


def run_connect(case, res: Result):
    starttls, cap, si, tls, mech, step, f = case
    pre, post = SASLS[si]
    faults = {}
    if f is not None:
        faults[step] = f
    srv = ms.Server(users={LOGIN.encode(): PW.encode()}, sasl=list(pre),
                    post_tls_caps=post if post in (None, "absent") else list(post),
                    starttls=cap, faults=faults, encodings="quoted")
    sess = mslab.Session(srv, tls_outcome=tls)
    CALLS[0] += 1
    if CALLS[0] % 3 == 0:
        srv.lookalike_texts = True
        srv.rng = random.Random(CALLS[0])
        res.count("connects-against-look-alike-status-texts")
    if CALLS[0] % 2:
        # the documented positional order: connect(login, password, authz_id, starttls, authmech)
        out = sess.call("connect", LOGIN, PW, "", starttls, mech)
        res.count("connects-with-positional-arguments")
    else:
        out = sess.call("connect", LOGIN, PW, starttls=starttls, authmech=mech)
    res.count("connect-configurations")
    if any(e[2] == "tls-handshake" for e in sess.wire.events):
        res.count("tls-handshakes")
    res.case(repr(case))
    res.observe("fault-points", "%s:%s" % (step, f))
    tls_must_fail = starttls and (not cap or tls != "ok" or
                                  (step == "STARTTLS" and f is not None and f != INJECT) or
                                  (step == "greeting" and f is not None))
    # a broken post-TLS capability listing leaves no SASL list: connect must fail too
    if starttls and step == "post-tls-caps" and f is not None:
        tls_must_fail = True
    if starttls and nothing_usable(post) and not tls_must_fail:
        tls_must_fail = True  # nothing usable announced after TLS: no credentials may be sent
    wit = {"starttls": starttls, "server_announces_STARTTLS": cap, "sasl_pre_tls": pre,
           "sasl_post_tls": post, "tls_handshake": tls, "authmech": mech,
           "fault": [step, f], "outcome": repr(out)[:200],
           "wire": [[e[1], e[2], e[3][:80]] for e in sess.wire.events][:30]}
    problems = check_trace(sess, srv, starttls, out, res, wit, tls_must_fail)
    res.monitor("trace-spec", bool(problems))
    for rule, detail in problems[:2]:
        res.violation({"rule": rule, "starttls": starttls,
                       "fault": "%s:%s" % (step, f) if f else "none",
                       "tls": tls}, dict(wit, detail=detail))


# ---- histories x public callables ----------------------------------------------------
def public_callables():
    out = []
    for name in dir(mslab.Client):
        if name.startswith("_"):
            continue
        attr = getattr(mslab.Client, name)
        if callable(attr):
            out.append(name)
    return out


def synth_args(name):
    fn = getattr(mslab.Client, name)
    try:
        sig = inspect.signature(fn)
    except (TypeError, ValueError):
        return ()
    args = []
    params = list(sig.parameters.values())
    if params and params[0].name in ("self", "cls"):
        params = params[1:]
    # decorated methods hide their signature behind (*args, **kwargs): use the names
    wrapped = getattr(fn, "__wrapped__", None)
    table = {"havespace": ("s", 10), "getscript": ("s",), "putscript": ("s", "keep;"),
             "deletescript": ("s",), "renamescript": ("s", "t"), "setactive": ("s",),
             "checkscript": ("keep;",), "listscripts": (), "connect": (LOGIN, PW)}
    if name in table:
        return table[name]
    for p in params:
        if p.kind in (p.VAR_POSITIONAL, p.VAR_KEYWORD):
            continue
        if p.default is not p.empty:
            continue
        ann = p.annotation
        args.append(1 if ann is int else "s")
    return tuple(args)


HISTORIES = ["never-connected", "greeting-NO", "greeting-silence", "starttls-refused",
             "tls-handshake-failed", "auth-NO", "auth-BYE", "authenticated", "after-logout",
             "authenticated-then-reconnect-auth-NO", "authenticated-then-reconnect-greeting-BYE"]


PREP = [0]


def prepare(history):
    """-> (session, description). The session's server is the *current* connection."""
    users = {LOGIN.encode(): PW.encode()}
    if history == "never-connected":
        return mslab.Session(ms.Server(users=users)), None
    if history in ("greeting-NO", "greeting-silence"):
        s = mslab.Session(ms.Server(users=users, faults={"greeting": history.split("-")[1]}))
        s.call("connect", LOGIN, PW)
        return s, None
    if history == "starttls-refused":
        s = mslab.Session(ms.Server(users=users, faults={"STARTTLS": "NO"}))
        s.call("connect", LOGIN, PW, starttls=True)
        return s, None
    if history == "tls-handshake-failed":
        s = mslab.Session(ms.Server(users=users), tls_outcome="SSLError")
        s.call("connect", LOGIN, PW, starttls=True)
        return s, None
    if history in ("auth-NO", "auth-BYE"):
        srv0 = ms.Server(users=users, faults={"auth-verdict": history[5:]})
        PREP[0] += 1
        if PREP[0] % 2:
            # the refusal worded as the server likes (protocol look-alikes, legacy charsets)
            srv0.lookalike_texts = True
            srv0.rng = random.Random(PREP[0])
        s = mslab.Session(srv0)
        s.call("connect", LOGIN, PW)
        return s, None
    s = mslab.Session(ms.Server(users=users, scripts={b"s": b"keep;\r\n"}))
    s.call("connect", LOGIN, PW)
    if history == "after-logout":
        s.call("logout")
    elif history.startswith("authenticated-then-reconnect"):
        f = {"auth-verdict": "NO"} if history.endswith("auth-NO") else {"greeting": "BYE"}
        s.server = ms.Server(users=users, scripts={b"s": b"keep;\r\n"}, faults=f)
        s.call("connect", LOGIN, PW)
    return s, None


def run_histories(res: Result):
    names = public_callables()
    res.counters["callables"] = len(names)
    for n in names:
        res.observe("public-callables", n)
    for history in HISTORIES:
        for name in names:
            if name == "connect":
                continue
            sess, _ = prepare(history)
            srv = sess.server
            mark = sess.wire.mark()
            nviol = len(srv.violations)
            was_auth = srv.authenticated
            out = sess.call(name, *synth_args(name))
            sent = sess.wire.sent_since(mark)
            res.count("history-calls")
            res.case(repr((history, name)))
            cmds, left, issues = ms.parse_all(sent)
            verbs = [c[0] for c in cmds]
            script_verbs = [v for v in verbs if v in ms.SCRIPT_VERBS]
            problems = []
            if script_verbs and not was_auth:
                problems.append(("script-command-before-authentication",
                                 "%s sent %s" % (name, script_verbs)))
            if not was_auth and name in ("havespace", "listscripts", "getscript", "putscript",
                                         "checkscript", "deletescript", "renamescript",
                                         "setactive"):
                if not (out[0] == "exc" and out[1] == "Error" and not sent):
                    problems.append(("unauthenticated-call-did-not-refuse",
                                     "%s -> %s, sent %r" % (name, out[:2], sent[:40])))
            res.monitor("trace-spec", bool(problems))
            for rule, detail in problems[:1]:
                res.violation({"rule": rule, "history": history},
                              {"history": history, "call": name, "args": list(synth_args(name)),
                               "outcome": repr(out)[:200], "sent": sent[:200],
                               "detail": detail})
    res.sample({"workload": "histories", "histories": HISTORIES, "callables": names}, 1)


def run_random_histories(shard, res: Result):
    """Random longer histories on ONE client object: connects with random server
    behaviour interleaved with calls of random public callables; after every step the
    trace rules are evaluated against the connection that is current at that moment."""
    rng = random.Random(shard["rs"])
    names = [n for n in public_callables() if n != "connect"]
    users = {LOGIN.encode(): PW.encode()}
    for i in range(shard["n"]):
        sess = mslab.Session(ms.Server(users=users))
        trace = []
        for k in range(rng.randint(3, 10)):
            if rng.random() < 0.4:
                starttls = rng.choice([True, False, True, False, 1])
                step = rng.choice(["greeting", "STARTTLS", "post-tls-caps", "auth-verdict"])
                f = rng.choice(FAULTS + ([INJECT] if step == "STARTTLS" else []))
                pre, post = rng.choice(SASLS)
                cap = rng.random() < 0.8
                tls = rng.choice(TLS) if starttls else "ok"
                faults = {step: f} if f else {}
                sess.server = ms.Server(users=users, sasl=list(pre),
                                        post_tls_caps=post if post in (None, "absent") else list(post),
                                        starttls=cap, faults=faults, encodings="quoted",
                                        scripts={b"s": b"keep;\r\n"})
                sess.wire = ms.Wire()
                sess.tls_outcome = tls
                if rng.random() < 0.3:
                    sess.server.lookalike_texts = True
                    sess.server.rng = random.Random(rng.randrange(1 << 30))
                if rng.random() < 0.5:
                    out = sess.call("connect", LOGIN, PW, "", starttls,
                                    rng.choice([None, "PLAIN", "LOGIN"]))
                else:
                    out = sess.call("connect", LOGIN, PW, starttls=starttls,
                                    authmech=rng.choice([None, "PLAIN", "LOGIN"]))
                trace.append(["connect", {"starttls": starttls, "fault": [step, f], "tls": tls,
                                          "announces_STARTTLS": cap, "sasl": [pre, post]},
                              repr(out)[:80]])
                must_fail = starttls and (not cap or tls != "ok" or
                                          (f is not None and f != INJECT and
                                           step in ("greeting", "STARTTLS", "post-tls-caps")) or
                                          nothing_usable(post))
                problems = check_trace(sess, sess.server, starttls, out, res, {}, must_fail)
                if not must_fail and out == ("ret", True) and not sess.server.authenticated:
                    problems.append(("connect-true-but-server-did-not-accept", "-"))
            else:
                name = rng.choice(names)
                srv = sess.server
                was_auth = srv.authenticated
                mark = sess.wire.mark()
                out = sess.call(name, *synth_args(name))
                sent = sess.wire.sent_since(mark)
                trace.append([name, repr(out)[:60]])
                cmds, left, issues = ms.parse_all(sent)
                script_verbs = [c[0] for c in cmds if c[0] in ms.SCRIPT_VERBS]
                problems = []
                if script_verbs and not was_auth:
                    problems.append(("script-command-before-authentication",
                                     "%s sent %s" % (name, script_verbs)))
                if not was_auth and name in ("havespace", "listscripts", "getscript",
                                             "putscript", "checkscript", "deletescript",
                                             "renamescript", "setactive"):
                    if not (out[0] == "exc" and out[1] == "Error" and not sent):
                        problems.append(("unauthenticated-call-did-not-refuse", name))
            res.count("random-history-steps")
            res.monitor("trace-spec", bool(problems))
            if problems:
                res.violation({"rule": problems[0][0], "history": "random"},
                              {"trace": trace, "detail": problems[0][1]})
                break
        res.case(repr((shard["rs"], i)))
        res.count("random-histories")
        if i % 401 == 0:
            res.sample({"workload": "random-histories", "trace": trace[:6]}, 1)


def run_reply_shapes(res: Result):
    """Every reply of a refused login worded and coded as a server may: each response code of
    R-MS's look-alike list (string parameters with escaped quotes, parentheses, backslashes) x
    each look-alike text (sent as a literal; some start with OK, some hold an OK line) x
    AUTHENTICATE answered NO / BYE x with and without STARTTLS. Afterwards a script command
    is attempted: nothing but the handshake may have been written."""
    users = {LOGIN.encode(): PW.encode()}
    for code in [None] + list(ms.Server.LOOKALIKE_CODES):
        for text in ms.Server.LOOKALIKE_TEXTS:
            for verdict in ("NO", "BYE"):
                for starttls in (False, True):
                    srv = ms.Server(users=users, sasl=["PLAIN", "LOGIN"], starttls=True,
                                    faults={"auth-verdict": verdict}, encodings="quoted",
                                    scripts={b"s": b"keep;\r\n"})
                    srv.lookalike_texts = True
                    srv.rng = random.Random(1)
                    srv.forced_code, srv.forced_text = code, text
                    sess = mslab.Session(srv)
                    out = sess.call("connect", LOGIN, PW, starttls=starttls)
                    out2 = sess.call("listscripts")
                    res.count("refused-logins-in-every-reply-shape")
                    res.case(repr(("reply-shape", code, text, verdict, starttls)))
                    problems = []
                    if out == ("ret", True):
                        problems.append("connect-returned-True-after-refused-login")
                    if sess.client.authenticated:
                        problems.append("authenticated-flag-after-refused-login")
                    if any("before successful AUTHENTICATE" in v for v in srv.violations):
                        problems.append("script-command-before-authentication")
                    if out[0] == "hang" or out2[0] == "hang":
                        problems.append("hang")
                    res.monitor("reply-shapes", bool(problems))
                    for pr in problems[:1]:
                        res.violation({"rule": pr, "history": "refused-login-reply-shapes",
                                       "verdict": verdict},
                                      {"response_code": code, "text": text, "starttls": starttls,
                                       "connect": repr(out)[:200], "listscripts": repr(out2)[:200],
                                       "wire": [[e[1], e[2], e[3][:80]] for e in sess.wire.events][:30]})


def run_shard(tier, shard, res: Result):
    if shard["w"] == "reply-shapes":
        run_reply_shapes(res)
        return
    if shard["w"] == "histories":
        run_histories(res)
        return
    if shard["w"] == "random-histories":
        run_random_histories(shard, res)
        return
    cases = connect_cases()
    s, e = shard["range"]
    for i in range(s, e):
        run_connect(cases[i], res)
        if i % 499 == 0:
            res.sample({"workload": "connect", "case": list(cases[i])}, 3)
