"""C11 — a filter set survives being saved as a script and loaded back.

For a set A reached by a history: s1 = str(A); parse; B = from_parser_result; B must agree
with A on names (in order), enabled flags, descriptions, required extensions (as sets) and
per-filter trees; rendering the reloaded set is a fixed point (C = reload(str(B)),
str(C) == str(B)); name/description comments are attached to the right filter.
"""
from __future__ import annotations

import os
import random
import tempfile

from .. import factlab as fl, filtgen, rsieve, textgen
from ..core import Result, split
from .. import parserlab as lab

LEVEL = "exploration"
RULE = ("sets reached by random histories (add/update/rename/replace with description/"
        "disable/enable/move/remove, 2-10 operations) over a pool of rich names (non-ASCII, "
        "'#', ':', spaces inside), descriptions (absent, empty, text, non-ASCII, with '#'), "
        "benign and soft values (commas, brackets, non-ASCII, CRLF/LF inside a value; quotes/backslashes are C06's), "
        "default and custom marker-prefix pairs; the saved text is read back through parse(bytes), "
        "parse(str) and parse_file in rotation, half of the time by a long-lived Parser that has "
        "just parsed a script leaving marker comments unattached. Non-trivial = the set has at least one "
        "filter and its rendering parses; distinct = distinct rendered texts.")
ASSUMPTIONS = [
    "names/descriptions: single-line, no marker prefix inside, not surrounded by white space",
    "requires are compared as sets; an absent description equals an empty one",
    "if the rendering of A itself does not parse the case is C06's and only counted here",
]
FLOORS = {
    "quick": {"reloads": 10000, "reloads-with-disabled": 2000, "reloads-via-file": 3000,
              "reloads-through-a-used-parser": 5000, "wild-names": 2500, "wild-descriptions": 1500,
              "saves-through-tosieve-into-a-chunk-list": 2500,
              "reloads-with-CR-in-text": 1000,
              "reloads-with-description": 2000, "reloads-custom-prefix": 2000},
    "thorough": {"reloads": 150000, "reloads-with-disabled": 30000, "reloads-via-file": 40000,
                 "reloads-with-CR-in-text": 15000,
                 "reloads-with-description": 30000, "reloads-custom-prefix": 30000},
}
SHARD_TIMEOUT = {"quick": 600, "thorough": 3000}

PREFIXES = [("# Filter: ", "# Description: "), ("# rule:", "# desc:"), ("#F ", "#D "),
            ("# Règle : ", "# Déscription : "), ("# 规则：", "# 说明："),
            # characters that mean something to re / str.format / %-formatting
            ("# Filter (webmail): ", "# Description (webmail): "), ("# [rule] ", "# [desc] "),
            ("# rule+ ", "# desc* "), ("# r.le? ", "# d{0}sc %s "),
            # two markers that begin alike (neither is a prefix of the other)
            ("# Rule ", "# Rule-note: "), ("# ", "## "), ("#N ", "#N: "), ("# Name: ", "# Name's note: ")]
NAMES = ["rule1", "Rule é", "filter #2", "x: y", "名前", "a-b_c.d", "UPPER lower",
         "n(1)", "50%", "[test]", "a,b", "Filter", "Description", "#hash first", "last hash#",
         "\"q\"", "keep;", "if false {",
         # single-line text by Sieve's rules (a hash comment ends at LF only) holding what
         # str.splitlines() / strip() / utf-8-sig treat specially
         "a\x0bb", "f\x0cf", "x\x1cy", "n\x85l", "l\u2028s", "p\u2029s", "tab\tin", "\ufeffbom",
         "zero\u200bwidth", "nb\u00a0sp", "cr\rin name"]


def plan(tier, seed):
    n = 12000 if tier == "quick" else 200000
    k = 16 if tier == "quick" else 64
    return [{"w": "hist", "n": e - s, "rs": seed * 1000003 + i}
            for i, (s, e) in enumerate(split(n, k))]


VIA = {"via": "bytes", "tmp": None}


def reload(text, prefixes):
    """parse the saved text through the entry point selected for this case (a saved
    script is normally read back with parse_file) and load it"""
    p = lab.sl_parser.Parser()
    if VIA.get("dirty"):
        # a long-lived Parser that has just been used on another script, one that leaves
        # marker comments unattached (after its last command / right before its error)
        p = VIA.setdefault("parser", p)
        for junk in ("keep;\n%sstale name\n%sstale description\n" % prefixes,
                     "%sstale name 2\n%sstale description 2\nfoobar;\n" % prefixes):
            if VIA["dirty"] == 1 or junk.endswith("foobar;\n"):
                lab.parse(junk.encode("utf-8"), parser=p)
    data = text.encode("utf-8")
    if VIA["via"] == "file" and VIA["tmp"]:
        with open(VIA["tmp"], "wb") as f:
            f.write(data)
        o = lab.parse(data, parser=p, via_file=VIA["tmp"])
    elif VIA["via"] == "str":
        o = lab.parse(text, parser=p)
    else:
        o = lab.parse(data, parser=p)
    if o.verdict() is not True:
        return None, o
    b = fl.FiltersSet("reloaded", prefixes[0], prefixes[1])
    r = fl.call(b.from_parser_result, p)
    if r[0] != "ret":
        return r, o
    return b, o


def filter_trees(text):
    lr = rsieve.lex(text.encode("utf-8"))
    if lr.error:
        return None
    try:
        tree = rsieve.parse_generic(lr.toks)
    except (rsieve.GrammarError, RecursionError):
        return None
    return [rsieve.canon_nf(lab.norm_generic(rsieve.nf_cmd(c, decoded=True)))
            for c in tree if c.name != "require"]


SAVES = [0]


def check(fs, prefixes, res: Result, witness):
    r = fl.render(fs)
    if r[0] != "ret":
        res.count("skipped:render-raised(C06)")
        return
    s1 = r[1]
    SAVES[0] += 1
    if SAVES[0] % 4 == 0:
        # the documented way to save: tosieve(target=<writer>); here a writer that collects
        # chunks in a list (empty, hence falsy, until written to), stdout captured
        import contextlib
        import io
        sink, leak = lab.ListSink(), io.StringIO()
        with contextlib.redirect_stdout(leak):
            rr = fl.call(fs.tosieve, sink)
        res.count("saves-through-tosieve-into-a-chunk-list")
        if rr[0] != "ret" or sink.getvalue() != s1 or leak.getvalue():
            res.violation({"clause": "saved-text-depends-on-the-kind-of-writer"},
                          dict(witness, str_of_set=s1[:300], into_chunk_list=sink.getvalue()[:300],
                               leaked_to_stdout=leak.getvalue()[:200], outcome=repr(rr)[:100]))
    B, o = reload(s1, prefixes)
    if B is None:
        # the values used here hold no quote and no backslash (C06's recorded finding), so a
        # saved text that the parser refuses is a failure of the save/load cycle itself
        res.count("reloads")
        res.violation({"clause": "saved-text-does-not-parse",
                       "error": lab.error_class(o.error) if o.verdict() is False else str(o.verdict())},
                      dict(witness, rendered=s1[:500], parser_error=repr(o.error)[:200]))
        return
    res.count("reloads")
    res.count("reloads-via-" + VIA["via"])
    if "\r" in s1:
        res.count("reloads-with-CR-in-text")
    res.case(s1, nontrivial=bool(fs.filters))
    if any(not f["enabled"] for f in fs.filters):
        res.count("reloads-with-disabled")
    if any(f.get("description") for f in fs.filters):
        res.count("reloads-with-description")
    if prefixes != PREFIXES[0]:
        res.count("reloads-custom-prefix")
    viols = []
    if not isinstance(B, fl.FiltersSet):
        viols.append(({"clause": "loader-raised", "exc": B[1] if B[0] == "exc" else "hang"},
                      repr(B)))
    else:
        an = [f["name"] for f in fs.filters]
        bn = [f["name"] for f in B.filters]
        if an != bn:
            viols.append(({"clause": "names"}, "saved %r reloaded %r" % (an, bn)))
        else:
            ae = [f["enabled"] for f in fs.filters]
            be = [f["enabled"] for f in B.filters]
            if ae != be:
                viols.append(({"clause": "enabled"}, "saved %r reloaded %r" % (ae, be)))
            ad = [f.get("description") or "" for f in fs.filters]
            bd = [f.get("description") or "" for f in B.filters]
            if ad != bd:
                viols.append(({"clause": "descriptions"}, "saved %r reloaded %r" % (ad, bd)))
        if set(fs.requires) != set(B.requires):
            viols.append(({"clause": "requires"}, "saved %r reloaded %r" % (
                sorted(fs.requires), sorted(B.requires))))
        r2 = fl.render(B)
        if r2[0] != "ret":
            viols.append(({"clause": "reloaded-render-raised",
                           "exc": r2[1] if r2[0] == "exc" else "hang"}, repr(r2)))
        else:
            s2 = r2[1]
            t1, t2 = filter_trees(s1), filter_trees(s2)
            if t1 is None or t2 is None or t1 != t2:
                viols.append(({"clause": "filter-trees"},
                              "s1=%r s2=%r" % (s1[:300], s2[:300])))
            C, o2 = reload(s2, prefixes)
            if not isinstance(C, fl.FiltersSet):
                viols.append(({"clause": "reloaded-text-not-reloadable"}, s2[:300]))
            else:
                r3 = fl.render(C)
                if r3[0] != "ret" or r3[1] != s2:
                    viols.append(({"clause": "fixed-point"},
                                  "s2=%r s3=%r" % (s2[:300], (r3[1] if r3[0] == "ret" else r3)[:300])))
    res.monitor("reload-contract", bool(viols))
    for sig, detail in viols[:2]:
        res.violation(sig, dict(witness, rendered=s1[:500], detail=detail))


def run_shard(tier, shard, res: Result):
    tmp = tempfile.NamedTemporaryFile(prefix="rv-c11-", suffix=".sieve", delete=False)
    tmp.close()
    VIA["tmp"] = tmp.name
    try:
        _run_shard(tier, shard, res)
    finally:
        os.unlink(tmp.name)
        VIA["tmp"] = None


def _run_shard(tier, shard, res: Result):
    rng = random.Random(shard["rs"])
    for i in range(shard["n"]):
        VIA["via"] = ("bytes", "str", "file")[i % 3]
        VIA["dirty"] = (0, 0, 1, 2)[i % 4]
        if VIA["dirty"]:
            res.count("reloads-through-a-used-parser")
        prefixes = rng.choice(PREFIXES)
        vkind = rng.choice(["benign", "soft"])
        names = rng.sample(NAMES, 3)
        if rng.random() < 0.3:
            # a name drawn from broad character classes instead of the pool (single line,
            # not surrounded by white space, not starting like a marker)
            w = textgen.text(rng, 1, 8, exclude=["nul", "line-break"], no_outer_space=True)
            w = w.replace("\n", "").replace("\r", "") or "w"
            if w != w.strip():
                w = "a" + w + "z"
            if not any(w.startswith(p.strip()) or p.strip() in w for pp in PREFIXES for p in pp):
                names[rng.randrange(3)] = w
                res.count("wild-names")
                for k in textgen.classes_of(w):
                    res.observe("name-classes", k)
        h = [("add", n, filtgen.gen_definition(rng, vkind))
             for n in names[:rng.randint(1, 3)]]
        h += fl.gen_history(rng, rng.randint(0, 8), vkind, names=names)
        for _ in range(rng.randint(0, 2)):
            n = rng.choice(names)
            desc = rng.choice(filtgen.DESCS[2:])
            if rng.random() < 0.3:
                desc = textgen.text(rng, 1, 10, exclude=["nul", "line-break"],
                                    no_outer_space=True)
                desc = desc.replace("\n", "").replace("\r", "") or "d"
                if desc != desc.strip():
                    desc = "a" + desc + "z"
                res.count("wild-descriptions")
            h.insert(rng.randint(1, len(h)), ("replace", n, n, None, desc))
        if rng.random() < 0.4:
            h.insert(rng.randint(1, len(h)), ("disable", rng.choice(names)))
        fs = fl.FiltersSet("t", prefixes[0], prefixes[1])
        model = fl.RList()
        applied = []
        for op in h:
            if op[0] == "replace" and op[4] is not None:
                pass
            fl.apply_op(fs, model, op)
            applied.append(fl.describe_op(op))
        check(fs, prefixes, res, {"history": applied, "prefixes": list(prefixes)})
        if i % 301 == 0:
            r = fl.render(fs)
            res.sample({"workload": "hist", "prefixes": list(prefixes),
                        "rendered": r[1][:400] if r[0] == "ret" else repr(r)}, 2)
