"""C12 — filter-set editing operations behave like an ordered, uniquely named list.

Monitors: icontract class invariants on the real FiltersSet (names unique; enabled flag,
is_filter_disabled and rendering agree) evaluated after every public call, plus lock-step
postconditions against the R-LIST reference model (return value / exception, name order,
enabled flags, getfilter content, unchanged text for operations on unknown names).
"""
from __future__ import annotations

import io
import random

from .. import contracts, factlab as fl, filtgen, rsieve
from ..core import Result, split
from .. import parserlab as lab

LEVEL = "exploration"
RULE = ("operation sequences over a pool of 3 names and an alphabet of 42 operations "
        "(add, update, update+rename, replace with the content of another filter with/without "
        "rename, remove, enable, disable, move up/down): ALL sequences up to length 3 (quick) "
        "/ 4 (thorough) from the empty set; the bytes-name twins of those operations (every "
        "name handed over as UTF-8 bytes): ALL sequences up to length 2 over both alphabets "
        "and all of length 3 (4) whose last operation is a twin; plus random sequences up to "
        "length 25 mixing both; ALL sequences up to length 3 over the names {a, empty string}; plus pairs of live sets (two fresh ones, or two loaded from the "
        "SAME Parser result of a saved script with disabled filters) receiving 3-14 operations "
        "alternately: each follows its own model and the untouched one must not change. "
        "Non-trivial = sequence in which at least one operation changed the set; distinct = "
        "distinct operation sequences.")
ASSUMPTIONS = [
    "R-LIST (rv/factlab.py RList) is the reference model",
    "not demanded: return value of disabling an already disabled filter, is_filter_disabled "
    "for unknown names, direction other than up/down",
]
EXHAUSTIVE = {"quick": True, "thorough": True}
FLOORS = {
    "quick": {"sequences": 70000, "sequences-with-bytes-names": 70000,
              "pair-sequences:same-parser-result": 1800, "pair-sequences:fresh": 1800,
              "sequences-with-the-empty-name": 10000, "loaded-script-sequences": 1000, "monitor:invariant.names_unique": 200000,
              "lockstep-steps": 150000},
    "thorough": {"sequences": 3000000, "sequences-with-bytes-names": 3000000,
                 "pair-sequences:same-parser-result": 70000, "pair-sequences:fresh": 70000,
                 "sequences-with-the-empty-name": 10000, "loaded-script-sequences": 30000, "loaded-script-sequences": 1000, "monitor:invariant.names_unique": 9000000,
                 "lockstep-steps": 7000000},
}
SHARD_TIMEOUT = {"quick": 600, "thorough": 3000}

NAMES = ["a", "b", "c"]


def alphabet(NAMES=NAMES):
    ops = []
    for n in NAMES:
        ops.append(("add", n))
    for n in NAMES:
        ops.append(("update", n, n))
    for n in NAMES:
        for m in NAMES:
            if n != m:
                ops.append(("update", n, m))
    for n in NAMES:
        for src in NAMES:
            ops.append(("replace", n, src, None, None))
    for n in NAMES:
        for m in NAMES:
            if n != m:
                ops.append(("replace", n, n, m, "d"))
    for n in NAMES:
        ops.append(("remove", n))
    for n in NAMES:
        ops.append(("enable", n))
    for n in NAMES:
        ops.append(("disable", n))
    for n in NAMES:
        ops.append(("move", n, "up"))
        ops.append(("move", n, "down"))
    return ops


ALPHA = alphabet()
# the empty string is a legal name too (and falsy: `name or default` pitfalls)
ALPHA_E = alphabet(["a", ""])
# the same operations with every name handed over as UTF-8 bytes (the API takes both)
ALPHA_B = [fl.bytes_twin(op) for op in ALPHA]


def plan(tier, seed):
    L = 3 if tier == "quick" else 4
    shards = []
    for length in range(1, L + 1):
        n = len(ALPHA) ** length
        k = 1 if length < 3 else (16 if length == 3 else 96)
        for s, e in split(n, k):
            shards.append({"w": "enum", "len": length, "range": [s, e]})
    # bytes-name twins: everything of length <= 2 over both alphabets; length 3 (4) with a
    # str-name prefix and a bytes-name last operation
    for length in (1, 2):
        shards.append({"w": "enum-b", "len": length, "range": [0, (2 * len(ALPHA)) ** length]})
    for length in range(3, L + 1):
        n = len(ALPHA) ** length
        for s, e in split(n, 16 if length == 3 else 96):
            shards.append({"w": "enum-b", "len": length, "range": [s, e]})
    for length in range(1, 4):
        n = len(ALPHA_E) ** length
        for s, e in split(n, 1 if length < 3 else 4):
            shards.append({"w": "enum-e", "len": length, "range": [s, e]})
    nl = 1200 if tier == "quick" else 40000
    for i, (s, e) in enumerate(split(nl, 4 if tier == "quick" else 16)):
        shards.append({"w": "loaded", "n": e - s, "rs": seed * 31 + 7 + i})
    npair = 4000 if tier == "quick" else 150000
    for i, (s, e) in enumerate(split(npair, 8 if tier == "quick" else 32)):
        shards.append({"w": "pairs", "n": e - s, "rs": seed * 7919 + 3 + i})
    nr = 3000 if tier == "quick" else 100000
    for i, (s, e) in enumerate(split(nr, 8 if tier == "quick" else 32)):
        shards.append({"w": "random", "n": e - s, "rs": seed * 1000003 + i})
    return shards


_defs = {}


def simple_def(k):
    d = _defs.get(k)
    if d is None:
        d = filtgen.Definition()
        d.conditions = [("Subject", ":is", "v%d" % k)]
        if k % 5 == 3:
            d.conditions = [("false",)]  # a filter whose one and only test is the constant
        elif k % 5 == 4:
            d.conditions = [("true",)]
        d.actions = [("fileinto", "F%d" % k)]
        d.matchtype = "anyof" if k % 2 else "allof"
        _defs[k] = d
    return d


_ref_cache = {}


def reference_text(d):
    """Rendering of a definition's own content, obtained from a fresh set."""
    key = id(d)
    t = _ref_cache.get(key)
    if t is None:
        ref = fl.FiltersSet("ref")
        ref.addfilter("x", list(d.conditions), list(d.actions), d.matchtype)
        buf = io.StringIO()
        ref.getfilter("x").tosieve(target=buf)
        t = _ref_cache[key] = buf.getvalue()
    return t


def concretise(op, k):
    if op[0] == "add":
        return ("add", op[1], simple_def(k))
    if op[0] == "update":
        return ("update", op[1], op[2], simple_def(k))
    return op


# ---- class invariants (icontract) -----------------------------------------------
INV = {"fired": []}


def names_unique(self):
    contracts._ev("invariant.names_unique")
    names = [f["name"] for f in self.filters]
    if len(names) != len(set(names)):
        INV["fired"].append(("names-unique", repr(names)))
    return True


def flag_status_rendering_agree(self):
    contracts._ev("invariant.flag_status_rendering_agree")
    for f in self.filters:
        flag = f["enabled"]
        status = self.is_filter_disabled(f["name"])
        buf = io.StringIO()
        try:
            f["content"].tosieve(target=buf)
        except Exception as e:  # rendering failure is reported elsewhere
            INV["fired"].append(("render-raised", type(e).__name__))
            continue
        wrapped = is_wrapped(buf.getvalue())
        if not (flag == (not status) == (not wrapped)):
            INV["fired"].append(("flag-status-rendering",
                                 "name=%r enabled=%r is_filter_disabled=%r wrapped=%r" % (
                                     f["name"], flag, status, wrapped)))
    return True


def is_wrapped(text):
    """R-SIEVE view: the command is `if false { <exactly one command> }`."""
    lr = rsieve.lex(text.encode("utf-8", "surrogatepass"))
    if lr.error:
        return None
    try:
        tree = rsieve.parse_generic(lr.toks)
    except rsieve.GrammarError:
        return None
    if len(tree) != 1:
        return None
    c = tree[0]
    return (c.name == "if" and len(c.tests) == 1 and c.tests[0].name == "false"
            and not c.tests[0].args and not c.testlist and c.block is not None
            and len(c.block) == 1)


_installed = False


def install():
    global _installed
    if _installed:
        return
    _installed = True
    if contracts.HAVE_ICONTRACT:
        ic = contracts.icontract
        cls = fl.sl_factory.FiltersSet
        cls = ic.invariant(names_unique, error=AssertionError)(cls)
        cls = ic.invariant(flag_status_rendering_agree, error=AssertionError)(cls)
        # icontract mutates the class in place; keep the reference anyway
        fl.sl_factory.FiltersSet = cls
        fl.FiltersSet = cls


def check_invariants_builtin(fs):
    if not contracts.HAVE_ICONTRACT:
        names_unique(fs)
        flag_status_rendering_agree(fs)


# ---- lock-step -------------------------------------------------------------------
def check_step(fs, model, op, real, mod, before, trace, res: Result):
    """Everything that must hold on (fs, model) right after `op`. -> (go on?, changed?)"""
    res.count("lockstep-steps")
    check_invariants_builtin(fs)
    for what, detail in INV["fired"]:
        res.violation({"monitor": "invariant", "which": what, "after": op[0]},
                      {"sequence": trace, "detail": detail})
    del INV["fired"][:]
    bad = compare(real, mod, op)
    if bad:
        res.violation({"monitor": "postcondition", "op": op[0], "what": bad[0]},
                      {"sequence": trace, "detail": bad[1]})
        return False, False
    # state agreement
    names = [f["name"] for f in fs.filters]
    if names != model.names():
        res.violation({"monitor": "postcondition", "op": op[0], "what": "name-order"},
                      {"sequence": trace, "real": names, "model": model.names()})
        return False, False
    flags = [f["enabled"] for f in fs.filters]
    mflags = [m.enabled for m in model.f]
    if flags != mflags:
        res.violation({"monitor": "postcondition", "op": op[0], "what": "enabled-flags"},
                      {"sequence": trace, "real": flags, "model": mflags})
        return False, False
    for m in model.f:
        g = fl.call(fs.getfilter, m.name)
        if g[0] != "ret" or g[1] is None:
            res.violation({"monitor": "postcondition", "op": op[0],
                           "what": "getfilter-missing"},
                          {"sequence": trace, "name": m.name, "got": repr(g)})
            return False, False
        buf = io.StringIO()
        g[1].tosieve(target=buf)
        if buf.getvalue() != reference_text(m.d):
            res.violation({"monitor": "postcondition", "op": op[0],
                           "what": "getfilter-content", "enabled": m.enabled},
                          {"sequence": trace, "name": m.name, "got": buf.getvalue(),
                           "want": reference_text(m.d)})
            return False, False
    after = fl.render(fs)
    changed = False
    if mod is not None and mod[0] == "ret" and mod[1] is False:
        # nothing may have changed
        if after != before:
            res.violation({"monitor": "postcondition", "op": op[0],
                           "what": "refused-op-changed-the-set"},
                          {"sequence": trace, "before": before[1][:300] if before[0] == "ret" else repr(before),
                           "after": after[1][:300] if after[0] == "ret" else repr(after)})
            return False, False
    elif after != before:
        changed = True
    for missing in NAMES:
        if model.idx(missing) < 0:
            g = fl.call(fs.getfilter, missing)
            if g != ("ret", None):
                res.violation({"monitor": "postcondition", "op": op[0],
                               "what": "getfilter-unknown-name"},
                              {"sequence": trace, "name": missing, "got": repr(g)})
    return True, changed


def run_sequence(ops, res: Result):
    fs = fl.FiltersSet("t")
    model = fl.RList()
    changed = False
    trace = []
    for k, op in enumerate(ops):
        cop = concretise(op, k)
        before = fl.render(fs)
        real, mod, ok = fl.apply_op(fs, model, cop)
        trace.append(list(op))
        if real and real[0] == "skip":
            continue
        go, ch = check_step(fs, model, op, real, mod, before, trace, res)
        changed = changed or ch
        if not go:
            return changed
    return changed


# hand-written scripts as a stored script may look (only shapes whose reading is unambiguous:
# a top-level `if false` wraps exactly one command, that command is not itself `if false`,
# and no elsif/else follows the wrapper)
LOADED_SHAPES = [
    'if true { keep; }',
    'if false { keep; }',
    'if true { keep; } elsif false { discard; } else { stop; }',
    'if false { if true { keep; } }',
    'if not false { keep; }',
    'if anyof (false) { keep; }',
    'if allof (false, true) { keep; } elsif false { stop; }',
    'if true { stop; } elsif false { discard; } elsif false { keep; } else { stop; }',
    'keep;',
    '# Filter: a\nif false {\n    if true { keep; }\n}\n# Filter: b\nif true { stop; }\n'
    '# Filter: c\nif false {\n    if anyof (false) { discard; }\n}',
    'require "fileinto";\n# Filter: x\nif header :is "a" "b" { fileinto "c"; } '
    'elsif false { keep; }\n# Filter: y\nif false { if size :over 1K { stop; } }',
]


def run_loaded(script, order, res: Result):
    """A set loaded from a hand-written script: the class invariants hold right after the
    load and after every disable / enable, flags follow the operations, and getfilter keeps
    returning each filter's own content."""
    del INV["fired"][:]
    p0 = lab.sl_parser.Parser()
    if p0.parse(script) is not True:
        res.inconclusive.append("loaded-shapes script does not parse: %r" % script[:60])
        return
    expected = []
    is_if = []
    for c in p0.result:
        if c.name == "require":
            continue
        is_if.append(c.name == "if")
        buf = io.StringIO()
        c.tosieve(target=buf)
        inner = c.children[0] if is_wrapped(buf.getvalue()) else c
        buf2 = io.StringIO()
        inner.tosieve(target=buf2)
        expected.append((buf2.getvalue(), not is_wrapped(buf.getvalue())))
    p = lab.sl_parser.Parser()
    p.parse(script)
    fs = fl.FiltersSet("loaded")
    r = fl.call(fs.from_parser_result, p)
    trace = [["load", script]]

    def audit(step):
        check_invariants_builtin(fs)
        bad = list(INV["fired"])
        del INV["fired"][:]
        names = [f["name"] for f in fs.filters]
        if len(names) != len(expected):
            bad.append(("filter-count", "%d filters for %d commands" % (len(names), len(expected))))
        else:
            for f, (text, enabled) in zip(fs.filters, state):
                if f["enabled"] != enabled:
                    bad.append(("enabled-flag", "%r is %r, expected %r" % (f["name"], f["enabled"], enabled)))
                g = fl.call(fs.getfilter, f["name"])
                got = None
                if g[0] == "ret" and g[1] is not None:
                    b = io.StringIO()
                    g[1].tosieve(target=b)
                    got = b.getvalue()
                if got != text:
                    bad.append(("getfilter-content", "%r: got %r want %r" % (f["name"], got, text)))
        res.monitor("loaded-set-audit", bool(bad))
        for what, detail in bad[:2]:
            res.violation({"monitor": "loaded-set", "which": what, "after": step},
                          {"sequence": trace, "detail": detail})
        return not bad

    if r[0] != "ret":
        res.violation({"monitor": "loaded-set", "which": "load-raised", "after": "load"},
                      {"sequence": trace, "detail": repr(r)[:200]})
        return
    state = [[t, e] for t, e in expected]
    if not audit("load"):
        return
    names = [f["name"] for f in fs.filters]
    for k in order:
        i = k % len(names)
        if not is_if[i]:
            continue  # an elsif / else branch is not a filter one can switch off by itself
        op = "disable" if (k // len(names)) % 2 == 0 else "enable"
        trace.append([op, names[i]])
        fl.call(fs.disablefilter if op == "disable" else fs.enablefilter, names[i])
        state[i][1] = (op == "enable")
        res.count("lockstep-steps")
        if not audit(op):
            return
    t = fl.render(fs)
    if t[0] != "ret" or lab.sl_parser.Parser().parse(t[1]) is not True:
        res.violation({"monitor": "loaded-set", "which": "rendering-rejected", "after": "ops"},
                      {"sequence": trace, "detail": repr(t)[:300]})


def two_sets(origin, rng):
    """-> [(fs, model), (fs, model)]: two live sets.  origin 'fresh': two empty sets;
    'same-parser-result': both loaded from ONE Parser result of a saved script with three
    filters (some disabled) - the situation of two views on the same stored script."""
    if origin == "fresh":
        return [(fl.FiltersSet("A"), fl.RList()), (fl.FiltersSet("B"), fl.RList())]
    seed_set = fl.FiltersSet("seed")
    states = []
    for i, n in enumerate(NAMES):
        d = simple_def(100 + i)
        seed_set.addfilter(n, list(d.conditions), list(d.actions), d.matchtype)
        dis = rng.random() < 0.6
        if dis:
            seed_set.disablefilter(n)
        states.append((n, d, not dis))
    p = lab.sl_parser.Parser()
    if p.parse(str(seed_set)) is not True:
        return None
    out = []
    for nm in ("A", "B"):
        fs = fl.FiltersSet(nm)
        fs.from_parser_result(p)
        model = fl.RList()
        for n, d, en in states:
            model.f.append(fl.ModelFilter(n, d, en))
        out.append((fs, model))
    return out


def run_pair(steps, origin, rng, res: Result):
    """Operations alternate between two live sets; each is compared with its own model after
    its own steps, and the set that was NOT touched must render exactly as before."""
    pair = two_sets(origin, rng)
    if pair is None:
        res.inconclusive.append("seed script of the pair stratum does not parse")
        return False
    trace = []
    changed = False
    for k, (who, op) in enumerate(steps):
        fs, model = pair[who]
        ofs, omodel = pair[1 - who]
        cop = concretise(op, k)
        before = fl.render(fs)
        other_before = fl.render(ofs)
        real, mod, ok = fl.apply_op(fs, model, cop)
        trace.append(["set %s" % "AB"[who]] + list(op))
        if real and real[0] == "skip":
            continue
        go, ch = check_step(fs, model, op, real, mod, before, trace, res)
        changed = changed or ch
        if not go:
            return changed
        other_after = fl.render(ofs)
        res.monitor("isolation-between-two-sets", other_after != other_before)
        if other_after != other_before:
            res.violation({"monitor": "isolation", "op": op[0], "origin": origin,
                           "what": "operation-on-one-set-changed-another"},
                          {"sequence": trace,
                           "untouched_before": repr(other_before)[:300],
                           "untouched_after": repr(other_after)[:300]})
            return changed
        for m in omodel.f:
            g = fl.call(ofs.getfilter, m.name)
            if g[0] != "ret" or g[1] is None:
                res.violation({"monitor": "isolation", "op": op[0], "origin": origin,
                               "what": "getfilter-on-untouched-set"},
                              {"sequence": trace, "name": m.name, "got": repr(g)[:200]})
                return changed
    return changed


def compare(real, mod, op):
    if mod is None:
        return None
    if real[0] == "hang":
        return ("hang", repr(real))
    if mod[0] == "exc":
        if real[0] != "exc" or real[1] != mod[1]:
            return ("expected-" + mod[1], repr(real))
        return None
    if real[0] == "exc":
        return ("unexpected-exception:" + real[1], repr(real))
    want = mod[1]
    got = real[1]
    if want == "either":
        return None
    if want is None:
        return None if got is None else ("return-value", "got %r want None" % (got,))
    if bool(got) != bool(want) or not isinstance(got, bool):
        return ("return-value", "got %r want %r" % (got, want))
    return None


def run_shard(tier, shard, res: Result):
    install()
    res.observe("contract-engine", "icontract" if contracts.HAVE_ICONTRACT else "builtin")
    if shard["w"] == "enum":
        n = len(ALPHA)
        s, e = shard["range"]
        for idx in range(s, e):
            x = idx
            ops = []
            for _ in range(shard["len"]):
                ops.append(ALPHA[x % n])
                x //= n
            ch = run_sequence(ops, res)
            res.count("sequences")
            res.case(repr(ops), nontrivial=ch)
            if idx % 20011 == 0:
                res.sample({"workload": "enum", "sequence": [list(o) for o in ops]}, 2)
    elif shard["w"] == "loaded":
        rng = random.Random(shard["rs"])
        for i in range(shard["n"]):
            sc = LOADED_SHAPES[i % len(LOADED_SHAPES)]
            run_loaded(sc, [rng.randrange(12) for _ in range(rng.randint(1, 8))], res)
            res.count("sequences")
            res.count("loaded-script-sequences")
            res.case(repr((sc, i)))
    elif shard["w"] == "enum-e":
        n = len(ALPHA_E)
        s, e = shard["range"]
        for idx in range(s, e):
            x = idx
            ops = []
            for _ in range(shard["len"]):
                ops.append(ALPHA_E[x % n])
                x //= n
            if idx % 2:
                ops = [fl.bytes_twin(o) if o[0] == "replace" else o for o in ops]
            ch = run_sequence(ops, res)
            res.count("sequences")
            res.count("sequences-with-the-empty-name")
            res.case(repr(ops), nontrivial=ch)
    elif shard["w"] == "pairs":
        rng = random.Random(shard["rs"])
        for i in range(shard["n"]):
            origin = ("fresh", "same-parser-result")[i % 2]
            steps = [(rng.randrange(2), rng.choice(ALPHA) if rng.random() < 0.85
                      else rng.choice(ALPHA_B)) for _ in range(rng.randint(3, 14))]
            ch = run_pair(steps, origin, rng, res)
            res.count("sequences")
            res.count("pair-sequences")
            res.count("pair-sequences:" + origin)
            res.case(repr((origin, steps)), nontrivial=ch)
    elif shard["w"] == "enum-b":
        both = ALPHA + ALPHA_B
        s, e = shard["range"]
        for idx in range(s, e):
            x = idx
            ops = []
            if shard["len"] <= 2:
                for _ in range(shard["len"]):
                    ops.append(both[x % len(both)])
                    x //= len(both)
            else:
                for j in range(shard["len"]):
                    ops.append((ALPHA_B if j == 0 else ALPHA)[x % len(ALPHA)])
                    x //= len(ALPHA)
                ops.reverse()
            ch = run_sequence(ops, res)
            res.count("sequences")
            res.count("sequences-with-bytes-names")
            res.case(repr(ops), nontrivial=ch)
    else:
        rng = random.Random(shard["rs"])
        for i in range(shard["n"]):
            ops = [rng.choice(ALPHA) if rng.random() < 0.8 else rng.choice(ALPHA_B)
                   for _ in range(rng.randint(5, 25))]
            ch = run_sequence(ops, res)
            res.count("sequences")
            res.count("random-sequences")
            res.case(repr(ops), nontrivial=ch)
            if i % 499 == 0:
                res.sample({"workload": "random", "sequence": [list(o) for o in ops][:8]}, 1)
    for k, v in contracts.EVALS.items():
        res.monitors.setdefault(k, [0, 0])
        res.monitors[k][0] = v


def replay(witness, res: Result):
    install()
    from ..core import unjson_bytes
    ops = [tuple(unjson_bytes(x) for x in o) for o in witness["sequence"]]
    run_sequence(ops, res)
