"""C18 — parse errors point at the offending place.

Constructed offenders: valid multi-line script V (accepted by R-SIEVE *and* by the
parser), an insertion gap, an offending token x whose invalidity at that gap is known
by construction, arbitrary suffix text.  Oracle 1: reported line/column(/length) are
those of x.  Oracle 2: the report is identical for every suffix.  Oracle 3 (other
rejections, W-MUT): reported offset is never before the edited token and does not
change when the text after the token at which the parser stopped is replaced.
"""
from __future__ import annotations

import contextlib
import random

from .. import gen, rsieve
from ..core import Result, split
from .. import parserlab as lab

LEVEL = "exploration"
RULE = ("triples (valid generated script in a random multi-line layout with comments and "
        "multi-byte characters, LF or CRLF; insertion gap; offender from 7 classes: non-token "
        "bytes, unknown command, unknown tag, command/tag of an extension that is not "
        "required, tag the command does not take, surplus string/number, test in command "
        "position, non-test in test position) x 5 suffixes; plus single-edit mutants for the "
        "weaker clause. Non-trivial = the parser rejected the constructed script; distinct = "
        "distinct constructed byte strings.")
ASSUMPTIONS = [
    "x is the first invalidating token by construction: the prefix is a prefix of a script "
    "that R-SIEVE and the parser both accept, and x is invalid at that gap under the frozen "
    "SPEC table",
    "the length component of error_pos is not judged for lexical errors",
    "a constructed script that the parser accepts or on which it raises is counted, not "
    "reported here (C01/C02 own those)",
]
FLOORS = {
    "quick": {"exact-position-checks": 40000, "suffix-groups": 40000, "crlf-cases": 8000,
              "multibyte-before-x": 8000, "mut-position-checks": 8000,
              "debug-parser-runs": 40000, "bases-with-a-bare-CR": 300,
              "runs-on-a-parser-used-before": 30000},
    "thorough": {"exact-position-checks": 500000, "suffix-groups": 500000,
                 "crlf-cases": 100000, "multibyte-before-x": 100000,
                 "mut-position-checks": 50000, "debug-parser-runs": 500000,
                 "runs-on-a-parser-used-before": 300000},
}
SHARD_TIMEOUT = {"quick": 600, "thorough": 3000}

SEPS = [b" ", b" ", b"\n", b"\n    ", b"\t", b"  ", b" /* \xc3\xa9 c */ ", b" /* cr\rinside */ ",
        b"\n# h\xc3\xa9h\xc3\xa9 \xe2\x82\xac comment ; { \"\n", b"\n\n", b" /**/\n"]
LEXICAL = [b"&", b"%", b"$x", b"!", b"=", b"'q'", b"\\", b"*", b"@", b"-1", b"<",
           b"\xc3\xa9", b"~~~", b".", b"+", b"?"]
SUFFIXES = [None, b"", b" ; keep;\n", b" )) ]] } foo \" \n", b" \xff\xfe\x00 \n"]
ALL_TAGS = sorted({t for sp in gen.SPEC.values() for t in sp["tags"]}
                  | {":over", ":under"})
EXT_ACTIONS = [k for k, v in gen.SPEC.items() if v["ext"]]


def plan(tier, seed):
    n = 4000 if tier == "quick" else 80000
    k = 16 if tier == "quick" else 64
    shards = [{"w": "offenders", "n": e - s, "rs": seed * 1000003 + i}
              for i, (s, e) in enumerate(split(n, k))]
    n2 = 1000 if tier == "quick" else 12000
    shards += [{"w": "mut", "n": e - s, "rs": seed * 7919 + i}
               for i, (s, e) in enumerate(split(n2, 8 if tier == "quick" else 32))]
    return shards


def layout(toks, rng, crlf):
    """Random multi-line layout. Returns bytes."""
    out = bytearray()
    r = rng.random()
    if r < 0.4:
        out += b"# \xc3\xa9\xc3\xa9 leading \xe2\x82\xac\n"
    elif r < 0.6:
        # the script starts with line breaks / blanks (offset 0 is a line break)
        out += rng.choice([b"\n", b"\n\n", b" \n", b"\t\n \n", b"\n#c\n", b"/**/\n",
                           b"/* first\rline */ ", b"/* a\rb\rc */"])
    for i, t in enumerate(toks):
        if i:
            p = toks[i - 1]
            if p.startswith(b"text:"):
                out += b"\n"
                if rng.random() < 0.3:
                    out += rng.choice(SEPS)
            elif p in (b";", b"{", b"}") and rng.random() < 0.8:
                out += rng.choice([b"\n", b"\n  ", b"\n# c \xc3\xa9\n", b"\n\n"])
            else:
                out += rng.choice(SEPS)
        out += t
    out += b"\n"
    data = bytes(out)
    if crlf:
        data = data.replace(b"\r\n", b"\n").replace(b"\n", b"\r\n")
    return data


def linecol(data, off):
    line = data.count(b"\n", 0, off) + 1
    col = off - data.rfind(b"\n", 0, off)
    return line, col


def roles(toks, tree):
    """Annotate gaps of a valid script. -> dict role -> list of gap indexes
    (gap g = insert before token g; len(toks) = at end)."""
    idx = {id(t): i for i, t in enumerate(toks)}
    r = {"any": list(range(len(toks) + 1)), "cmd-start": [], "test-start": [],
         "after-name": [], "surplus": []}

    def last_tok_index(a):
        if a.kind == "list":
            i = idx[id(a.itoks[-1])] + 1  # the closing bracket
            return i
        return idx[id(a.tok)]

    def cmd(c, is_test):
        i = idx[id(c.tok)]
        (r["test-start"] if is_test else r["cmd-start"]).append(i)
        r["after-name"].append((i + 1, c.name))
        sp = gen.SPEC.get(c.name)
        if sp is not None:
            npos = 0
            seen_pos = False
            k = 0
            args = c.args
            while k < len(args):
                a = args[k]
                if a.kind == "tag" and not seen_pos:
                    t = a.tok.text.decode().lower()
                    ent = sp["tags"].get(t)
                    if ent and ent[1] is not None:
                        k += 2
                        continue
                    if any(isinstance(p, tuple) and t in p[1] for p in sp["pos"]):
                        npos += 1
                        seen_pos = True
                    k += 1
                    continue
                seen_pos = True
                npos += 1
                k += 1
            full = npos == len(sp["pos"])
            if full and sp["tests"] == 0:
                if args:
                    g = last_tok_index(args[-1]) + 1
                else:
                    g = i + 1
                r["surplus"].append(g)
        for t in c.tests:
            cmd(t, True)
        if c.block is not None:
            for x in c.block:
                cmd(x, False)
            r["cmd-start"].append(idx[id(c.end_tok)])  # before the closing brace

    for c in tree:
        cmd(c, False)
    r["cmd-start"].append(len(toks))
    return r


def make_offenders(toks, tree, loaded, rng):
    """-> list of (class, gap, x)"""
    r = roles(toks, tree)
    out = []
    for _ in range(3):
        out.append(("lexical", rng.choice(r["any"]), rng.choice(LEXICAL)))
    for _ in range(2):
        out.append(("unknown-command", rng.choice(r["any"]), b"foobar"))
        out.append(("unknown-tag", rng.choice(r["any"]), b":foobar"))
    unloaded = [c for c in EXT_ACTIONS if gen.SPEC[c]["ext"] not in loaded]
    if unloaded:
        for _ in range(2):
            c = rng.choice(unloaded)
            x = c.encode() if rng.random() < 0.7 else c.upper().encode()
            out.append(("ext-command", rng.choice(r["any"]), x))
    # tag whose extension is not required / tag the command does not take
    for g, name in rng.sample(r["after-name"], min(4, len(r["after-name"]))):
        sp = gen.SPEC.get(name)
        if sp is None:
            continue
        ext_tags = [t for t, (slot, ptype, ext) in sp["tags"].items()
                    if ext and ext not in loaded]
        if ext_tags:
            out.append(("ext-tag", g, rng.choice(ext_tags).encode()))
        mand = {t for p in sp["pos"] if isinstance(p, tuple) for t in p[1]}
        bad = [t for t in ALL_TAGS if t not in sp["tags"] and t not in sp["rfc_other_tags"]
               and t not in mand]
        if bad:
            t = rng.choice(bad)
            out.append(("illegal-tag", g, t.encode() if rng.random() < 0.8
                        else t.upper().encode()))
    for g in rng.sample(r["surplus"], min(3, len(r["surplus"]))):
        out.append(("surplus-string", g, rng.choice([b'"zz"', b'"\xc3\xa9"', b'""'])))
        out.append(("surplus-number", g, rng.choice([b"1", b"10K", b"42"])))
        # offending tokens of every length, one token each: long strings (quoted, multi-line,
        # multi-byte), long numbers, long identifiers and tags
        n = rng.choice([97, 98, 99, 100, 101, 102, 152, 255, 256, 602, 1024, 2002, 5000])
        out.append(("surplus-string", g, rng.choice([
            b'"' + b"z" * (n - 2) + b'"', b'"' + "\u00e9".encode() * ((n - 2) // 2) + b'"',
            b"text:\n" + b"l" * (n - 8) + b"\n."])))
        out.append(("surplus-number", g, b"1" * n))
    for _ in range(2):
        n = rng.choice([99, 100, 101, 256, 1000, 5000])
        out.append(("unknown-command", rng.choice(r["any"]), b"f" * n))
        out.append(("unknown-tag", rng.choice(r["any"]), b":" + b"t" * n))
    for g in rng.sample(r["cmd-start"], min(3, len(r["cmd-start"]))):
        out.append(("test-as-command", g, rng.choice([b"true", b"header", b"exists",
                                                      b"not", b"anyof", b"size", b"TRUE"])))
    for g in rng.sample(r["test-start"], min(3, len(r["test-start"]))):
        out.append(("nontest-as-test", g, rng.choice([b"keep", b"stop", b"discard", b"if",
                                                      b"else", b"redirect", b"KEEP"])))
    return out


DEFERRED = {}


class _Sink:
    def write(self, s):
        return len(s)

    def flush(self):
        pass


USED = {"n": 0}
USED_BEFORE = [
    b'require ["fileinto"];\r\n/* a\r\n b */\r\nif header :is "s" text:\r\nx\r\n.\r\n'
    b'{ fileinto "a\r\nb"; }\r\n',
    b'keep;\nkeep;\n\n\nkeep;\n      foo "x";\n',
    b'if true {\n keep;\n',
    b'keep; "',
    b'if anyof (true, not exists ["a", ',
    b'require "fileinto";\nfileinto :copy',
]


def check_offender(V, toks, cls, gap, x, res: Result, crlf):
    off = toks[gap].pos if gap < len(toks) else len(V)
    prefix = V[:off]
    # keep a separator before x (x must not glue to the previous token)
    if prefix and prefix[-1:] not in b" \t\n":
        prefix += b" "
    xoff = len(prefix)
    line, col = linecol(prefix + x, xoff)
    rest = V[off:]
    reports = []
    first = None
    for sfx in SUFFIXES:
        tail = (b" " + rest) if sfx is None else sfx
        if x.startswith(b"text:"):
            # the dot that ends a multi-line literal must be followed by a line break
            tail = b"\n" + tail
        data = prefix + x + tail
        o = lab.parse(data)
        v = o.verdict()
        if v is not False:
            res.count("constructed-not-rejected:%s" % v)
            if sfx is None:
                res.count("constructed-not-rejected-class:%s" % cls)
            reports.append(None)
            continue
        reports.append((o.error, o.error_pos))
        res.case(data)
        # deferred read of the previous rejecting Parser object, now that another one ran
        prev = DEFERRED.get("p")
        if prev is not None:
            pp, pdata, psnap = prev
            now = lab.snapshot(pp, with_tree=False)
            res.monitor("report-stable-while-other-parsers-run", now != psnap)
            if now != psnap:
                res.violation({"oracle": "report-changed-after-another-parser-ran",
                               "class": cls},
                              {"input": pdata, "next_input": data,
                               "right_after_parse": repr(psnap[1:]),
                               "after_next_parse": repr(now[1:])})
        DEFERRED["p"] = (o.parser, data, lab.snapshot(o.parser, with_tree=False))
        if first is None:
            first = (data, o)
        if sfx is None or sfx == SUFFIXES[3] or sfx == SUFFIXES[4]:
            # the constructor's debug switch only adds traces: same report expected
            with contextlib.redirect_stdout(_Sink()):
                od = lab.parse(data, parser=lab.sl_parser.Parser(debug=True))
            differs = od.verdict() is not False or (od.error, od.error_pos) != (o.error, o.error_pos)
            res.count("debug-parser-runs")
            res.monitor("debug-switch-same-report", differs)
            if differs:
                res.violation({"oracle": "report-depends-on-debug-switch", "class": cls},
                              {"input": data, "default": repr((o.error, o.error_pos)),
                               "debug": repr((od.verdict(), od.error, od.error_pos))})
    if first is None:
        return
    data, o = first
    # the same input on a Parser object that has parsed something else before (several lines,
    # multi-line tokens, or a failure further down): same report as on a fresh one
    USED["n"] += 1
    before = USED_BEFORE[USED["n"] % len(USED_BEFORE)]
    up = lab.sl_parser.Parser()
    lab.parse(before, parser=up)
    ou = lab.parse(data, parser=up)
    differs = ou.verdict() is not False or (ou.error, ou.error_pos) != (o.error, o.error_pos)
    res.count("runs-on-a-parser-used-before")
    res.monitor("used-parser-same-report", differs)
    if differs:
        res.violation({"oracle": "report-depends-on-what-the-parser-parsed-before", "class": cls},
                      {"input": data, "parsed_before_on_the_same_parser": before,
                       "fresh": repr((o.error, o.error_pos)),
                       "used": repr((ou.verdict(), ou.error, ou.error_pos))})
    res.count("exact-position-checks")
    res.count("class:%s" % cls)
    if crlf:
        res.count("crlf-cases")
    try:
        prefix.decode("ascii")
    except UnicodeDecodeError:
        res.count("multibyte-before-x")
    res.observe("offender-classes", cls)
    want = (line, col, len(x))
    got = o.error_pos
    ok = (isinstance(got, tuple) and len(got) == 3 and got[0] == line and got[1] == col
          and (cls == "lexical" or got[2] == len(x))
          and isinstance(o.error, str) and o.error.startswith("line %d: " % line))
    res.monitor("oracle-1-exact-position", not ok)
    if not ok:
        what = ("line" if not (isinstance(got, tuple) and got and got[0] == line) else
                "column" if got[1] != col else
                "length" if got[2] != len(x) else "message-line")
        res.violation({"oracle": "exact-position", "class": cls, "wrong": what,
                       "crlf": bool(crlf)},
                      {"input": data, "offender": x, "expected_error_pos": list(want),
                       "error_pos": list(got) if isinstance(got, tuple) else repr(got),
                       "error": o.error})
    rs = [r for r in reports if r is not None]
    res.count("suffix-groups")
    same = all(r == rs[0] for r in rs)
    res.monitor("oracle-2-suffix-independence", not same)
    if not same:
        res.violation({"oracle": "suffix-independence", "class": cls},
                      {"prefix_and_x": prefix + x, "reports": [repr(r) for r in reports]})


def run_offenders(shard, res: Result):
    rng = random.Random(shard["rs"])
    g = gen.ScriptGen(rng, maxdepth=3, hostile=0.35, multiline=0.08)
    for i in range(shard["n"]):
        g.maxdepth = rng.choice([1, 2, 3])
        stoks, exts = g.script(ncmds=rng.choice([1, 2, 3]))
        if len(stoks) > 120:
            continue
        crlf = rng.random() < 0.3
        V = layout(stoks, rng, crlf)
        j = rsieve.judge(V)
        if j.v == rsieve.UNSPEC and set(j.unspec) == {"lone-CR"} and j.toks:
            # a bare CR (here: inside a comment) is the only thing the judge leaves undecided;
            # it is no line break for the position arithmetic, so such bases are used too
            j2 = rsieve.judge_tokens(j.toks)
            if j2.v == rsieve.ACCEPT:
                j2.toks = j.toks
                j = j2
                res.count("bases-with-a-bare-CR")
        if j.v != rsieve.ACCEPT:
            res.count("base-skipped:judge-%s" % j.v)
            continue
        if lab.parse(V).verdict() is not True:
            res.count("base-skipped:parser-rejects-valid-base")
            continue
        res.count("bases")
        for cls, gap, x in make_offenders(j.toks, j.tree, set(exts), rng):
            check_offender(V, j.toks, cls, gap, x, res, crlf)
        if i % 97 == 0:
            res.sample({"workload": "offenders", "base": V}, 2)


def run_mut(shard, res: Result):
    rng = random.Random(shard["rs"])
    g = gen.ScriptGen(rng, maxdepth=2, hostile=0.3, multiline=0.06)
    vocab = gen.V_SMALL + [b"foobar", b":foobar", b"1", b"keep", b"fileinto"]
    for i in range(shard["n"]):
        stoks, exts = g.script(ncmds=rng.choice([1, 2]))
        if len(stoks) > 60:
            continue
        if lab.parse(gen.render(stoks, "lines")).verdict() is not True:
            res.count("base-skipped:parser-rejects-valid-base")
            continue
        for kind, pos, mt in gen.single_edits(stoks, vocab, rng, 40):
            data = gen.render(mt, "lines", rng.choice([b"\n", b"\r\n"]))
            o = lab.parse(data)
            if o.verdict() is not False:
                continue
            lr = rsieve.lex(data)
            if lr.error or lr.unspec or len(lr.toks) != len(mt):
                continue
            res.case(data)
            res.count("mut-position-checks")
            # offset reported
            ep = o.error_pos
            if not (isinstance(ep, tuple) and len(ep) == 3):
                continue
            lines = data.split(b"\n")
            if not (1 <= ep[0] <= len(lines)):
                continue
            roff = sum(len(l) + 1 for l in lines[:ep[0] - 1]) + ep[1] - 1
            # first token that differs from the valid base is at index `pos`
            eoff = lr.toks[pos].pos if pos < len(lr.toks) else len(data.rstrip())
            early = roff < eoff
            res.monitor("oracle-3-not-before-edit", early)
            if early:
                res.violation({"oracle": "position-before-first-invalid-token", "edit": kind},
                              {"input": data, "edit_token_offset": eoff,
                               "reported_offset": roff, "error": o.error,
                               "error_pos": list(ep)})
            # report must not depend on what follows the token where the parser stopped
            stop_end = None
            for t in lr.toks:
                if t.pos <= roff < t.end:
                    stop_end = t.end
                    break
            if stop_end is not None:
                # (a line break first: a multi-line literal ends with its own line)
                alt = data[:stop_end] + b"\n )) ]] zz \xff"
                o2 = lab.parse(alt)
                dep = (o2.verdict() is not False or o2.error != o.error
                       or o2.error_pos != o.error_pos)
                res.monitor("oracle-3-suffix-independence", dep)
                if dep:
                    res.violation({"oracle": "report-depends-on-later-text", "edit": kind},
                                  {"input": data, "alt": alt, "report": [o.error, list(ep)],
                                   "alt_report": [o2.error, repr(o2.error_pos)]})


def run_shard(tier, shard, res: Result):
    if shard["w"] == "offenders":
        run_offenders(shard, res)
    else:
        run_mut(shard, res)


def replay(witness, res: Result):
    from ..core import unjson_bytes
    data = unjson_bytes(witness.get("input") or witness.get("prefix_and_x"))
    o = lab.parse(data)
    print("replay: verdict=%s error=%r error_pos=%r (expected %r)" % (
        o.verdict(), o.error, o.error_pos, witness.get("expected_error_pos")))
    exp = witness.get("expected_error_pos")
    if exp and o.verdict() is False and list(o.error_pos)[:2] != exp[:2]:
        res.violation({"oracle": "exact-position", "class": "replay", "wrong": "position",
                       "crlf": False}, {"input": data, "error_pos": list(o.error_pos)})
