"""C17 — script names and bodies come back exactly as the server holds them.

R-MS's store is the ground truth: getscript(n) must equal the stored body line by line (line
ending style and trailing blank lines ignored, nothing else) and listscripts() must equal
(active name, the other names in server order) — for every encoding RFC 5804 permits.
"""
from __future__ import annotations

import random

from .. import mslab, msmodel as ms, textgen
from ..core import Result, split

LEVEL = "exploration"
RULE = ("bodies and name sets biased to protocol look-alikes (lines OK / NO \"x\" / BYE / {5} / "
        "{5+} / \"x\" ACTIVE / ACTIVE, quotes, backslashes), CR/LF variations, empty script, no "
        "final newline, multi-byte text; each value served in every encoding the RFC permits "
        "for it (literal always; quoted when it has no CR/LF/NUL), active marker after either "
        "form. Non-trivial = every case; distinct = distinct (value, encoding).")
ASSUMPTIONS = [
    "bodies compared line by line after decoding UTF-8, ignoring line-ending style and "
    "trailing blank lines",
    "names are non-empty UTF-8 text without CR/LF/NUL",
]
FLOORS = {"quick": {"getscript-cases": 20000, "listscripts-cases": 20000,
                    "served-quoted": 15000, "served-literal": 20000,
                    "getscript-cases-segmented-with-debug": 10000, "getscript-big-cases": 20,
                    "listscripts-cases-segmented-with-debug": 10000,
                    "listings-right-after-a-getscript-on-the-same-connection": 3000},
          "thorough": {"getscript-cases": 150000, "listscripts-cases": 150000,
                       "served-quoted": 100000, "served-literal": 150000,
                       "getscript-cases-segmented-with-debug": 80000, "getscript-big-cases": 20,
                       "listscripts-cases-segmented-with-debug": 80000}}
SHARD_TIMEOUT = {"quick": 600, "thorough": 3000}

LINES = [b"keep;", b"OK", b'OK "done"', b'NO "x"', b"NO", b"BYE", b"{5}", b"{5+}", b"{0}",
         b'"x" ACTIVE', b"ACTIVE", b'"quoted"', b"back\\slash", b'say "hi"', b"",
         b"# \xc3\xa9\xc3\xa8\xe2\x82\xac", b"if true {", b"}", b'  fileinto "a";', b"x" * 80,
         b"\xe6\x97\xa5\xe6\x9c\xac", b"OK (WARNINGS) \"w\"", b"{3}abc", b"tab\there",
         b"# form\x0cfeed", b"vt\x0bhere", b"fs\x1cgs\x1drs\x1e", b"nel\xc2\x85here",
         b"ls\xe2\x80\xa8ps\xe2\x80\xa9end",
         # what codecs and str methods treat specially at the edge of a line: byte-order
         # mark / zero-width no-break space first, zero-width space, NBSP, blanks at both ends
         "\ufeffkeep;".encode(), "\ufeff".encode(), "\ufeff\ufeff# bom twice".encode(),
         "\u200bzero width first".encode(), "\u00a0nbsp first and last\u00a0".encode(),
         b"  two blanks first and last  ", b"\ttab first", b"\x1c fs first", "\u2028".encode(),
         "\u3000ideographic space".encode()]
NAMES = [b"main", b"x y", b'q"q', b"{5}", b"{5+}", b"OK", b"NO", b"BYE", b"ACTIVE",
         b"x ACTIVE", b'"a" ACTIVE', b"\xc3\xa9t\xc3\xa9", b"a\\b", b"a\\", b'"', b'""',
         b"vac\xc3\xa0tion", b"script.sieve", b"l'apostrophe", b"(paren)", b"a" * 100,
         "\ufeffbom".encode(), "nb\u00a0sp".encode(), b" lead and trail ", "z\u200bw".encode(),
         # many characters that need escaping; a quote first and none after it
         b'q"' * 10, b"\\" * 20, b'"\\' * 12 + b"x", b'"' + b"a" * 40, b'"' + b"abc def " * 6,
         b'x"' + b"y" * 35]


def plan(tier, seed):
    n = 20000 if tier == "quick" else 1000000
    k = 16 if tier == "quick" else 64
    out = []
    for i, (s, e) in enumerate(split(n, k)):
        out.append({"w": "bodies", "n": e - s, "rs": seed * 1000003 + i})
        out.append({"w": "names", "n": e - s, "rs": seed * 7919 + i})
    # scripts whose size needs 6, 7 and 8 digits in the literal header
    for i, size in enumerate([99999, 100000, 999999, 1000000, 1048576, 5000000, 16777216]):
        out.append({"w": "big", "size": size, "rs": seed + i})
    return out


def wild_line(rng, name=False):
    """one line (or one name) drawn from broad character classes (rv/textgen.py)"""
    t = textgen.text(rng, 1, 10, exclude=["nul", "line-break"] + (["control"] if name else []))
    t = t.replace("\n", "").replace("\r", "").replace("\x00", "")
    return (t or "w").encode("utf-8")


def gen_body(rng):
    k = rng.choice([0, 1, 1, 2, 3, 5])
    lines = [rng.choice(LINES) if rng.random() > 0.15 else wild_line(rng) for _ in range(k)]
    nl = rng.choice([b"\r\n", b"\r\n", b"\n"])
    body = nl.join(lines)
    if lines and rng.random() < 0.7:
        body += nl
    return body


def norm_lines(text):
    lines = text.replace("\r\n", "\n").split("\n")
    while lines and lines[-1] == "":
        lines.pop()
    return lines


def classify_body(body, how):
    """mechanism key: which look-alike the body starts with / contains"""
    first = body.replace(b"\r\n", b"\n").split(b"\n")[0] if body else b""
    import re
    if not body.strip(b"\r\n"):
        return "empty"
    if re.match(rb"\{\d+\+?\}", first):
        return "first-line-like-literal"
    return "other"


def run_bodies(shard, res: Result):
    rng = random.Random(shard["rs"])
    for i in range(shard["n"]):
        body = gen_body(rng)
        hows = ["literal"] + (["quoted"] if ms.can_quote(body) else [])
        lit_ok = False
        for how in hows:
            srv = ms.Server(users={b"user": b"pw"}, scripts={b"s": body}, encodings="quoted")
            srv.how_script = lambda how=how: how
            sess, r = mslab.authed_session(srv)
            out = sess.call("getscript", "s")
            res.count("getscript-cases")
            res.count("served-" + how)
            res.case(repr((body, how)))
            want = norm_lines(body.decode("utf-8"))
            ok = out[0] == "ret" and isinstance(out[1], str) and norm_lines(out[1]) == want
            if how == "literal":
                lit_ok = ok
            res.monitor("getscript-transparency", not ok)
            if not ok:
                cause = classify_body(body, how)
                if how == "quoted" and lit_ok:
                    cause = "body-served-as-quoted-string"
                res.violation({"op": "getscript", "encoding": how, "cause": cause,
                               "outcome": "differs" if out[0] == "ret" else
                               (out[1] if out[0] == "exc" else "hang")},
                              {"stored": body, "encoding": how, "returned": repr(out)[:300],
                               "wire": sess.wire.recv_since(0)[-200:]})
            if ok:
                # same stored data, other delivery and the client's trace switch on: random
                # recv() segmentation (cuts fall inside multi-byte characters too) with
                # Client(debug=True)
                srv2 = ms.Server(users={b"user": b"pw"}, scripts={b"s": body},
                                 encodings="quoted")
                srv2.how_script = lambda how=how: how
                sess2, r2 = mslab.authed_session(
                    srv2, ms.Seg(rng=random.Random(rng.randrange(1 << 30))), debug=True)
                if i % 2:
                    sess2.sock.seconds_per_recv = 1.5  # and the link is slow (virtual time)
                out2 = sess2.call("getscript", "s")
                res.count("getscript-cases-segmented-with-debug")
                ok2 = out2[0] == "ret" and isinstance(out2[1], str) and \
                    norm_lines(out2[1]) == want
                res.monitor("getscript-transparency", not ok2)
                if not ok2:
                    res.violation({"op": "getscript", "encoding": how,
                                   "cause": "delivery-or-debug-switch",
                                   "outcome": "differs" if out2[0] == "ret" else
                                   (out2[1] if out2[0] == "exc" else "hang")},
                                  {"stored": body, "encoding": how,
                                   "returned": repr(out2)[:300], "client_debug": True,
                                   "delivery": "random segmentation"})
            if i % 301 == 0:
                res.sample({"op": "getscript", "stored": body, "encoding": how}, 2)


LISTS = [0]
PRELUDES = [0]


def list_once(names, active, how, seg=None, debug=None):
    srv = ms.Server(users={b"user": b"pw"}, scripts={n: b"keep;\r\n" for n in names},
                    active=active, encodings=how)
    LISTS[0] += 1
    srv.active_marker = (b"ACTIVE", b"active", b"ACTIVE", b"Active")[LISTS[0] % 4]
    sess, r = mslab.authed_session(srv, seg, debug=debug)
    if names and LISTS[0] % 3 == 0:
        # the client has just downloaded a script on this connection (one without a final
        # line break, or an empty one, served as a literal): the listing that follows is
        # decoded like any other
        srv.scripts[names[0]] = (b"keep;", b"", b"# no final newline")[(LISTS[0] // 3) % 3]
        keep = srv.__dict__.get("how_script")
        srv.how_script = lambda: "literal"
        sess.call("getscript", names[0].decode("utf-8", "surrogateescape"))
        if keep is None:
            srv.__dict__.pop("how_script", None)
        else:
            srv.how_script = keep
        PRELUDES[0] += 1
    out = sess.call("listscripts")
    want_active = active.decode("utf-8") if active else None
    want_others = [n.decode("utf-8") for n in names if n != active]
    ok = (out[0] == "ret" and isinstance(out[1], tuple) and len(out[1]) == 2
          and out[1][0] == want_active and list(out[1][1]) == want_others)
    return ok, out, sess


def cause_of(names, active, how):
    """Counterfactual attribution of a listing mismatch."""
    if how != "literal":
        return "other"
    plain = [n for n in names if not n.startswith(b'"')]
    if active is not None and list_once(names, None, how)[0]:
        return "literal-name-followed-by-ACTIVE"
    if len(plain) != len(names) and list_once(plain, active if active in plain else None,
                                              how)[0]:
        return "literal-name-looks-like-quoted-string"
    if list_once(plain, None, how)[0]:
        return "literal-name-followed-by-ACTIVE+looks-like-quoted-string"
    return "other"


def run_names(shard, res: Result):
    rng = random.Random(shard["rs"])
    for i in range(shard["n"]):
        names = rng.sample(NAMES, rng.randint(0, 4))
        if names and rng.random() < 0.25:
            w = wild_line(rng, name=True)
            if w not in names:
                names[rng.randrange(len(names))] = w
                res.count("wild-names")
        active = rng.choice(names) if names and rng.random() < 0.6 else None
        for how in ("quoted", "literal"):
            ok, out, sess = list_once(names, active, how)
            res.counters["listings-right-after-a-getscript-on-the-same-connection"] = PRELUDES[0]
            res.count("listscripts-cases")
            res.count("served-" + how)
            res.case(repr((names, active, how)))
            res.monitor("listscripts-transparency", not ok)
            if not ok:
                res.violation({"op": "listscripts", "encoding": how,
                               "cause": cause_of(names, active, how),
                               "outcome": "differs" if out[0] == "ret" else
                               (out[1] if out[0] == "exc" else "hang")},
                              {"stored": names, "active": active, "encoding": how,
                               "returned": repr(out)[:300],
                               "wire": sess.wire.recv_since(0)[-300:]})
            if ok:
                ok2, out2, sess2 = list_once(
                    names, active, how, ms.Seg(rng=random.Random(rng.randrange(1 << 30))), True)
                res.count("listscripts-cases-segmented-with-debug")
                res.monitor("listscripts-transparency", not ok2)
                if not ok2:
                    res.violation({"op": "listscripts", "encoding": how,
                                   "cause": "delivery-or-debug-switch",
                                   "outcome": "differs" if out2[0] == "ret" else
                                   (out2[1] if out2[0] == "exc" else "hang")},
                                  {"stored": names, "active": active, "encoding": how,
                                   "returned": repr(out2)[:300], "client_debug": True,
                                   "delivery": "random segmentation"})
            if i % 301 == 0:
                res.sample({"op": "listscripts", "names": names, "active": active,
                            "encoding": how}, 2)


def run_big(shard, res: Result):
    rng = random.Random(shard["rs"])
    line = b"# " + b"0123456789" * 7 + b"\r\n"
    body = (line * (shard["size"] // len(line) + 1))[:shard["size"] - 7] + b"\r\nkeep;"
    body = body[:shard["size"]]
    for seg in (ms.Seg(), ms.Seg(rng=random.Random(rng.randrange(1 << 30))), ms.Seg(cap=4096)):
        srv = ms.Server(users={b"user": b"pw"}, scripts={b"s": body}, encodings="quoted")
        srv.how_script = lambda: "literal"
        sess, r = mslab.authed_session(srv, seg, debug=False)
        out = sess.call("getscript", "s")
        res.count("getscript-cases")
        res.count("getscript-big-cases")
        res.observe("big-script-sizes", str(len(body)))
        res.case(repr(("big", len(body), seg.describe())))
        ok = out[0] == "ret" and isinstance(out[1], str) and \
            norm_lines(out[1]) == norm_lines(body.decode("utf-8"))
        res.monitor("getscript-transparency", not ok)
        if not ok:
            res.violation({"op": "getscript", "encoding": "literal", "cause": "size",
                           "outcome": "differs" if out[0] == "ret" else
                           (out[1] if out[0] == "exc" else "hang")},
                          {"stored_octets": len(body), "delivery": seg.describe(),
                           "returned": repr(out)[:200]})


def run_shard(tier, shard, res: Result):
    if shard["w"] == "big":
        run_big(shard, res)
    elif shard["w"] == "bodies":
        run_bodies(shard, res)
    else:
        run_names(shard, res)


def replay(witness, res: Result):
    from ..core import unjson_bytes
    how = witness["encoding"]
    if "active" in witness:
        names = [unjson_bytes(n) for n in witness["stored"]]
        active = unjson_bytes(witness["active"]) if witness["active"] else None
        ok, out, sess = list_once(names, active, how)
        res.counters["listings-right-after-a-getscript-on-the-same-connection"] = PRELUDES[0]
        print("listscripts ->", out, "ok" if ok else "DIFFERS")
        if not ok:
            res.violation({"op": "listscripts", "encoding": how,
                           "cause": cause_of(names, active, how), "outcome": "differs"},
                          {"stored": names, "active": active})
    else:
        body = unjson_bytes(witness["stored"]) or b""
        srv = ms.Server(users={b"user": b"pw"}, scripts={b"s": body}, encodings="quoted")
        srv.how_script = lambda: how
        sess, r = mslab.authed_session(srv)
        out = sess.call("getscript", "s")
        ok = out[0] == "ret" and isinstance(out[1], str) and \
            norm_lines(out[1]) == norm_lines(body.decode("utf-8"))
        print("getscript ->", out, "ok" if ok else "DIFFERS")
        if not ok:
            res.violation({"op": "getscript", "encoding": how, "cause": "replay",
                           "outcome": "differs"}, {"stored": body})
