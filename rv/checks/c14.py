"""C14 — emulated rename never loses or overwrites a script.

Conservation monitor over R-MS's store: snapshot before renamescript(old, new) on a server
without RENAMESCRIPT; afterwards every pre-existing script still exists with its content
(line endings aside) under its old name or - only the renamed one - under the new name, no
other entry changed, and a True result implies the full rename took place.
"""
from __future__ import annotations

import itertools
import random

from .. import mslab, msmodel as ms, textgen
from ..core import Result, split

LEVEL = "fault_enumeration"
RULE = ("exhaustive product: old in {absent, present, active} x new in {absent, present, "
        "active} x other scripts in {none, one, one active} x old==new, x 7 script bodies "
        "(LF, CRLF, no final newline, protocol look-alike lines, non-ASCII, empty, Unicode "
        "line/paragraph separators and VT/FF/FS inside a line) x fault "
        "plan: none, or one of LISTSCRIPTS/GETSCRIPT/PUTSCRIPT/SETACTIVE/DELETESCRIPT answered "
        "NO / BYE / not at all / connection closed (thorough: all pairs of faults and random "
        "reply encodings). Non-trivial = a fault was injected or a name collision exists; "
        "distinct = distinct (state, body, fault plan).")
ASSUMPTIONS = [
    "R-MS enforces RFC 5804 rules (active script cannot be deleted, NONEXISTENT)",
    "contents compared modulo line-ending style and trailing blank lines",
    "names are served as quoted strings and bodies as literals (other encodings are C17's)",
]
EXHAUSTIVE = {"quick": True, "thorough": True}
FLOORS = {"quick": {"cases": 4000, "faulted-cases": 3500, "true-results": 100,
                    "cases-with-look-alike-status-texts": 500, "random-cases": 500,
                    "cases-on-a-client-that-listed-the-account-in-another-state-before": 2500},
          "thorough": {"cases": 23000, "faulted-cases": 22000, "true-results": 200,
                       "random-cases": 400000}}
SHARD_TIMEOUT = {"quick": 600, "thorough": 3000}

BODIES = [b"keep;\n", b"keep;\r\nstop;\r\n", b"discard;", b'OK "x"\r\nNO\r\n{5}\r\nkeep;\r\n',
          "# été €\r\nkeep;\r\n".encode(), b"",
          "# ff\x0c vt\x0b fs\x1c nel\x85 ls\u2028 ps\u2029 end\r\nkeep;\r\n".encode()]
OTHER_BODY = b"# other\r\nstop;\r\n"
NEW_BODY = b"# pre-existing target\r\ndiscard;\r\n"
VERBS = ["LISTSCRIPTS", "GETSCRIPT", "PUTSCRIPT", "SETACTIVE", "DELETESCRIPT"]
FAULTS = ["NO", "BYE", "silence", "eof"]


def states():
    out = []
    for old, new, other in itertools.product(("absent", "present", "active"),
                                             ("absent", "present", "active"),
                                             ("none", "one", "one-active")):
        if [old, new, other].count("active") + (other == "one-active") > 1:
            continue
        out.append((old, new, other, False))
    for old, other in itertools.product(("absent", "present", "active"),
                                        ("none", "one", "one-active")):
        if old == "active" and other == "one-active":
            continue
        out.append((old, "same", other, True))
    return out


def fault_plans(tier):
    plans = [()]
    for v in VERBS:
        for f in FAULTS:
            plans.append(((v, f),))
    if tier == "thorough":
        for (v1, f1), (v2, f2) in itertools.product(
                [(v, f) for v in VERBS for f in ("NO",)],
                [(v, f) for v in VERBS for f in FAULTS]):
            if VERBS.index(v1) < VERBS.index(v2):
                plans.append(((v1, f1), (v2, f2)))
    return plans


# (old, new, other) names: the plain ones, and names a server has to escape or to send as
# literals (double quote, backslash, multi-byte, literal look-alike, escaped length > 1024)
NAME_SETS = [("old", "new", "other"),
             ('o"ld', "arch\\ive", "oth er"),
             ("été", "new\\", "{5}"),
             ("x" * 1000 + '"' * 20, 'n\\"w', "OK"),
             # the TARGET name is at most 1024 octets raw and longer once escaped
             ("src", "y" * 1023 + '"', "n" * 1000 + "\\" * 13),
             # names whose own text starts like a quoted string
             ("\u65e5\u202f", '"a" x', '""')]


def all_cases(tier):
    cases = []
    for st in states():
        for bi in range(len(BODIES)):
            for plan_ in fault_plans(tier):
                cases.append((st, bi, plan_))
    # other names, listed as quoted strings or as literals: no fault, and a NO at each verb
    for st in states():
        for bi in (0, 1, 3):
            for ni in range(1, len(NAME_SETS)):
                for listing in ("quoted", "literal"):
                    for plan_ in [()] + [((v, "NO"),) for v in VERBS]:
                        cases.append((st, bi, plan_, ni, listing))
    return cases


def plan(tier, seed):
    n = len(all_cases(tier))
    shards = [{"w": "enum", "range": [s, e], "variant": "plain"}
              for s, e in split(n, 16 if tier == "quick" else 48)]
    # the same exhaustive product once more with status texts encoded at random (quoted /
    # literal; every other case: texts that look like protocol lines, sent as literals) and
    # random recv() segmentation; quick takes every 4th case of it
    shards += [{"w": "enum", "range": [s, e], "variant": "mixed", "rs": seed * 7919 + i,
                "stride": 1 if tier == "thorough" else 4}
               for i, (s, e) in enumerate(split(n, 48 if tier == "thorough" else 8))]
    # drawn cases (rv/textgen.py): names and bodies from broad character classes, up to three
    # fault points, a fault at the second or third occurrence of a verb, names listed as
    # quoted strings or literals
    k, per = (48, 10000) if tier == "thorough" else (4, 150)
    shards += [{"w": "random", "rs": seed * 104729 + i, "n": per} for i in range(k)]
    return shards


def random_case(rng):
    st = rng.choice(states())
    names = []
    while len(names) < 3:
        t = textgen.text(rng, 1, 8, exclude=["nul", "line-break", "control"])
        if rng.random() < 0.05:
            t = t * rng.choice([40, 130])
        # RFC 5804 2.1: no CR, LF, NUL in a script name; at most 1024 octets so that a server
        # can send it as a quoted string (longer ones are in NAME_SETS)
        if any(c in t for c in "\r\n\0\x01") or len(t.encode("utf-8")) > 1024:
            continue
        if t not in names:
            names.append(t)
    r = rng.random()
    if r < 0.3:
        body = rng.choice(BODIES)
    else:
        body = "".join(textgen.text(rng, 0, 10) + rng.choice(["\r\n", "\n", "\r\n", ""])
                       for _ in range(rng.randint(0, 6))).encode("utf-8")
        if r > 0.97:
            body = body * rng.choice([100, 3000])
    plan_ = []
    for _ in range(rng.choice([0, 1, 1, 2, 2, 3])):
        v = rng.choice(VERBS)
        for _ in range(rng.choice([0, 0, 0, 1, 2])):
            plan_.append((v, "pass"))
        plan_.append((v, rng.choice(FAULTS)))
    return (st, body, tuple(plan_), tuple(names), rng.choice(["quoted", "quoted", "literal"]))


def norm(b):
    lines = b.replace(b"\r\n", b"\n").split(b"\n")
    while lines and lines[-1] == b"":
        lines.pop()
    return lines


MARK = [0]


def norm_any(b):
    """for drawn bodies: CRLF, LF and a lone CR all count as line endings"""
    return norm(b.replace(b"\r\n", b"\n").replace(b"\r", b"\n"))


def body_of(bi):
    return bi if isinstance(bi, bytes) else BODIES[bi]


def build(st, bi, plan_, encodings="quoted", names=NAME_SETS[0]):
    old, new, other, same = st
    O, N, X = (n.encode("utf-8") for n in names)
    scripts = {}
    active = None
    if other != "none":
        scripts[X] = OTHER_BODY
        if other == "one-active":
            active = X
    if old != "absent":
        scripts[O] = body_of(bi)
        if old == "active":
            active = O
    if not same and new != "absent":
        scripts[N] = NEW_BODY
        if new == "active":
            active = N
    faults = {}
    for v, f in plan_:
        faults.setdefault(v, []).append(f)
    srv = ms.Server(users={b"user": b"pw"}, version=False, scripts=scripts, active=active,
                    encodings=encodings, faults=faults)
    srv.how_script = lambda: "literal"
    MARK[0] += 1
    srv.active_marker = (b"ACTIVE", b"active", b"Active", b"ACTIVE")[MARK[0] % 4]
    return srv


def run_case(case, res: Result, rng=None, probe=False):
    st, bi, plan_ = case[:3]
    names = NAME_SETS[0]
    if len(case) > 3:
        names = case[3] if isinstance(case[3], tuple) else NAME_SETS[case[3]]
    listing = case[4] if len(case) > 4 else "quoted"
    drawn = isinstance(bi, bytes)
    norm = norm_any if drawn else globals()["norm"]
    if drawn and not probe:
        res.count("random-cases")
        res.observe("drawn-fault-plans", "+".join("%s:%s" % p for p in plan_) or "none")
        for c in textgen.classes_of(" ".join(names)):
            res.observe("name-classes", c)
        for c in textgen.classes_of(bi.decode("utf-8")):
            res.observe("body-classes", c)
    O, N, X = (n.encode("utf-8") for n in names)
    srv = build(st, bi, plan_, names=names)
    if len(case) > 3:
        res.count("cases-with-other-names")
        res.count("listing:" + listing)

        def do_list2(args, srv=srv, listing=listing):
            if not srv._want(args):
                return
            for name in srv.scripts:
                how = listing if listing == "literal" or ms.can_quote(name) else "literal"
                srv.emit(ms.enc_string(name, how) + (b" " + srv.active_marker if name == srv.active else b"")
                         + ms.CRLF)
            srv.final("OK", None, b"Listscripts completed.")
        srv.do_listscripts = do_list2
    seg = None
    if rng is not None:
        srv.rng = random.Random(rng.randrange(1 << 30))
        srv.how = lambda srv=srv: srv.rng.choice(["quoted", "literal"])
        if rng.random() < 0.5:
            srv.lookalike_texts = True
            if not probe:
                res.count("cases-with-look-alike-status-texts")
        _list = srv.do_listscripts

        def do_list(args, srv=srv):
            # names stay quoted (literal names are C17's known finding)
            if not srv._want(args):
                return
            for name in srv.scripts:
                srv.emit(ms.quoted(name) + (b" " + srv.active_marker if name == srv.active else b"")
                         + ms.CRLF)
            srv.final("OK", None, b"Listscripts completed.")
        srv.do_listscripts = do_list
        seg = ms.Seg(rng=random.Random(rng.randrange(1 << 30)))
    sess, r = mslab.authed_session(srv, seg)
    if r != ("ret", True):
        res.inconclusive.append("auth failed: %r" % (r,))
        return
    listed_before = False
    if MARK[0] % 3 == 0 and srv.scripts and not probe:
        # the client has looked at this account before, when another script (or none) was the
        # active one: what it saw then decides nothing now
        intended, faults = srv.active, srv.faults
        srv.faults = {}
        earlier = O if O in srv.scripts else next(iter(srv.scripts))
        srv.active = earlier if earlier != intended else None
        sess.call("listscripts")
        srv.active, srv.faults = intended, faults
        res.count("cases-on-a-client-that-listed-the-account-in-another-state-before")
        listed_before = True
    before = dict(srv.scripts)
    before_active = srv.active
    newname = names[0] if st[3] else names[1]
    mark = len(srv.commands)
    out = sess.call("renamescript", names[0], newname)
    after = dict(srv.scripts)
    if not probe:
        res.count("cases")
    if plan_ and not probe:
        res.count("faulted-cases")
    res.case(repr(case), nontrivial=bool(plan_) or st[1] != "absent")
    res.observe("fault-points", "+".join("%s:%s" % p for p in plan_) or "none")
    res.observe("initial-states", "old=%s new=%s other=%s" % st[:3])
    cmds = [c[1] for c in srv.commands[mark:]]
    wit = {"state": {"old": st[0], "new": st[1], "other": st[2], "old==new": st[3]},
           "names": list(names), "listing": listing,
           "body": body_of(bi), "faults": [list(p) for p in plan_], "outcome": repr(out)[:200],
           "commands": cmds, "store_before": {k.decode(): v for k, v in before.items()},
           "active_before": before_active, "store_after": {k.decode(): v for k, v in after.items()},
           "active_after": srv.active,
           "client_listed_the_account_in_another_state_before": listed_before}
    problems = []
    # outcome domain
    if not (out in (("ret", True), ("ret", False)) or (out[0] == "exc" and out[1] == "Error")):
        problems.append(("outcome-domain", out[1] if out[0] == "exc" else
                         ("hang" if out[0] == "hang" else repr(out[1]))))
    nb = newname.encode("utf-8")
    # conservation
    for name, content in before.items():
        if name == O and not st[3]:
            ok = (O in after and norm(after[O]) == norm(content)) \
                or (nb in after and norm(after[nb]) == norm(content))
            if not ok:
                problems.append(("renamed-script-lost", "-"))
        else:
            if name not in after:
                problems.append(("script-lost", "target" if name == nb else "other"))
            elif name == nb and not st[3] and after[name] != content:
                # the pre-existing target may only change if it now holds... nothing: never
                problems.append(("existing-target-overwritten",
                                 "active" if before_active == name else "inactive"))
            elif name != nb and after[name] != content:
                if norm(after[name]) != norm(content):
                    problems.append(("other-script-modified", "-"))
    for name in after:
        if name not in before and name != nb:
            problems.append(("unexpected-script-created", "-"))
    if out == ("ret", True):
        res.count("true-results")
        if not st[3]:
            if O in after:
                problems.append(("true-but-old-still-exists", "-"))
            if nb not in after or O not in before or \
                    norm(after[nb]) != norm(before[O]):
                problems.append(("true-but-new-lacks-old-content", "-"))
            if (before_active == O) != (srv.active == nb):
                problems.append(("true-but-active-flag-wrong", "-"))
            if st[1] != "absent":
                problems.append(("true-although-target-existed", st[1]))
        if O not in before:
            problems.append(("true-although-old-absent", "-"))
    if probe:
        return problems
    res.monitor("conservation", bool(problems))
    cause = "-"
    looks = any(n.startswith(b'"') for n in before)
    if problems and listing == "literal" and (before_active is not None or looks):
        # counterfactual: the same case with the names listed as quoted strings.  If the
        # problem vanishes it is the consequence of one of C17's recorded findings, seen from
        # the rename emulation: the ACTIVE marker is lost after a literal name, or a literal
        # name whose own text starts like a quoted string is decoded as protocol syntax
        silent = Result()
        alt = run_case(case[:4] + ("quoted",), silent, rng, probe=True)
        res.count("counterfactual-runs")
        if not alt:
            cause = "+".join(c for c, on in (("active-script-listed-as-literal", before_active is not None),
                                             ("literal-name-looks-like-quoted-string", looks)) if on)
            res.observe("attributed-causes", cause)
    for what, detail in problems[:2]:
        sig = {"problem": what, "detail": detail,
               "fault": "+".join(f for _, f in plan_) or "none"}
        if cause != "-":
            sig = {"problem": what, "cause": cause}
        res.violation(sig, wit)


def run_shard(tier, shard, res: Result):
    if shard["w"] == "random":
        rng = random.Random(shard["rs"])
        for i in range(shard["n"]):
            case = random_case(rng)
            run_case(case, res, rng if rng.random() < 0.5 else None)
        return
    cases = all_cases(tier)
    s, e = shard["range"]
    rng = random.Random(shard["rs"]) if shard.get("variant") == "mixed" else None
    for i in range(s, e, shard.get("stride", 1)):
        run_case(cases[i], res, rng)
        if i % 487 == 0:
            st, bi, plan_ = cases[i][:3]
            res.sample({"state": list(st), "body": BODIES[bi], "faults": [list(p) for p in plan_]}, 3)


def replay(witness, res: Result):
    if witness.get("client_listed_the_account_in_another_state_before"):
        MARK[0] = 2  # build() counts on: the replayed case gets the same prelude
    st = witness["state"]
    state = (st["old"], st["new"] if not st["old==new"] else "same", st["other"], st["old==new"])
    from ..core import unjson_bytes
    body = unjson_bytes(witness["body"])
    bi = BODIES.index(body) if body in BODIES else body
    case = (state, bi, tuple(tuple(p) for p in witness["faults"]))
    if witness.get("names") and tuple(witness["names"]) in NAME_SETS and not isinstance(bi, bytes):
        case += (NAME_SETS.index(tuple(witness["names"])), witness.get("listing", "quoted"))
    elif witness.get("names"):
        case = (state, body, case[2], tuple(witness["names"]), witness.get("listing", "quoted"))
    run_case(case, res)
