"""C03 — accepted scripts are represented faithfully.

Oracle 1 (conservation, needs no grammar): multiset of significant source tokens
== multiset of tokens reachable in Parser.result (harness-owned walker).
Oracle 2 (structure): tree isomorphic to R-SIEVE's generic (RFC 5228 §8.2) tree.
Oracle 3 (entry points): parse(str) and parse_file give the tree parse(bytes) gives.
"""
from __future__ import annotations

import os
import tempfile
from collections import Counter

from .. import pwork, rsieve
from ..core import Result
from .. import parserlab as lab

LEVEL = "exploration"
RULE = ("every input the parser ACCEPTS among: W-TOK (V_full<=3 with/without preamble, "
        "V_small<=5; thorough adds V_full^4, V_small^6), W-GEN scripts, every tag "
        "subset/order of every command in 4 contexts, W-MUT single-token edits, W-META "
        "rewrites. Rejected inputs are evaluated but trivial. Non-trivial = accepted and "
        "the tree has >= 2 nodes; distinct = distinct input byte strings.")
ASSUMPTIONS = [
    "R-SIEVE lexer + generic grammar parser are trusted",
    "inputs that fill one optional tag slot twice are excluded (outside the claim)",
    "an empty block and no block are not distinguished (sievelib's tree cannot)",
]
FLOORS = {
    "quick": {"accepted": 5000, "structure-compared": 5000, "accepted-rich": 1000,
              "entry-accepted:file": 1000, "entry-accepted-with-CR": 100,
              "str-with-lone-surrogate-runs": 200},
    "thorough": {"accepted": 100000, "structure-compared": 100000, "accepted-rich": 20000,
                 "entry-accepted:file": 10000, "entry-accepted-with-CR": 1000},
}
SHARD_TIMEOUT = {"quick": 600, "thorough": 3000}


def plan(tier, seed):
    return pwork.plan(tier, seed)


def evaluate(data, as_text=None):
    """-> (accepted?, list of (sig, detail)), info.  as_text: the str handed to parse()
    while `data` (its octets) is what the reference lexer reads."""
    o = lab.parse(data if as_text is None else as_text)
    if o.verdict() is not True:
        return o, None, None
    lr = rsieve.lex(data)
    if lr.error or lr.unspec:
        return o, [], "lexically-unspecified"
    try:
        nf = lab.nf_result(o.result)
    except RecursionError:
        return o, [], "too-deep"
    out = []
    src = Counter(lab.token_leaves(lr.toks))
    got = Counter()
    for n in nf:
        got.update(lab.leaves(n, []))
    gen_tree = None
    skip = None
    try:
        gen_tree = rsieve.parse_generic(lr.toks)
    except rsieve.GrammarError:
        gen_tree = None
    except RecursionError:
        return o, [], "too-deep"
    if gen_tree is not None:
        s = rsieve._Sem(lr.toks)
        try:
            s.block(gen_tree, True)
        except RecursionError:
            return o, [], "too-deep"
        if "repeated-tag-slot" in s.unspec:
            return o, [], "repeated-tag-slot"
    if src != got:
        lost = src - got
        extra = got - src
        def kinds(c):
            return sorted({k[0] for k in c})
        out.append(({"oracle": "conservation", "lost": kinds(lost), "invented": kinds(extra),
                     "near": _owner(lost, extra, nf)},
                    "lost=%r invented=%r" % (list(lost.items())[:4], list(extra.items())[:4])))
    if gen_tree is not None:
        want = tuple(lab.norm_generic(x) for x in rsieve.nf_script(gen_tree))
        if want != nf:
            d = lab.first_diff(want, nf)
            out.append(({"oracle": "structure", "where": _diff_class(want, nf)}, d))
        return o, out, "structure"
    return o, out, "conservation-only"


def _owner(lost, extra, nf):
    """name of a command that is itself lost/invented, else '-'"""
    for c in list(lost) + list(extra):
        if c[0] == "ident":
            return c[1]
    return "-"


def _diff_class(a, b):
    """(command name, component) of the first structural difference."""
    if len(a) != len(b):
        return "command-count"
    for x, y in zip(a, b):
        if x != y:
            return _diff_node(x, y)
    return "?"


def _diff_node(x, y):
    if x[0] != y[0]:
        return "name:%s" % x[0]
    if x[1] != y[1]:
        return "args:%s" % x[0]
    if len(x[2]) != len(y[2]):
        return "test-count:%s" % x[0]
    for p, q in zip(x[2], y[2]):
        if p != q:
            return _diff_node(p, q)
    bx, by = x[3] or (), y[3] or ()
    if len(bx) != len(by):
        return "block-count:%s" % x[0]
    for p, q in zip(bx, by):
        if p != q:
            return _diff_node(p, q)
    return "?"


def _rich(nf):
    n = 0
    for c in nf:
        n += len(lab.leaves(c, []))
    return n


SHARED = {"parser": None, "prev": None, "tmp": None, "n": 0}


def _tree_or_verdict(o):
    if o.verdict() is not True:
        return ("verdict", str(o.verdict()))
    try:
        return ("tree", lab.nf_result(o.result))
    except RecursionError:
        return ("too-deep",)


def check_surrogate_text(data, res):
    """The script as a str with a lone surrogate put inside its first quoted string (text
    read with errors="surrogateescape").  If parse(str) accepts it, the tree must still say
    what the text says (reference: the surrogate-passed octets read by R-SIEVE)."""
    i = data.find(b'"')
    if i < 0:
        return
    try:
        text = data.decode("utf-8")
    except UnicodeDecodeError:
        return
    k = len(data[:i + 1].decode("utf-8"))
    text = text[:k] + "\udce9" + text[k:]
    src = text.encode("utf-8", "surrogatepass")
    o, viols, mode = evaluate(src, as_text=text)
    res.count("str-with-lone-surrogate-runs")
    if viols is None:
        return
    res.count("str-with-lone-surrogate-accepted")
    res.monitor("oracle-1-conservation", bool(viols))
    for sig, detail in viols[:1]:
        res.violation(dict(sig, input_kind="str-with-lone-surrogate"),
                      {"input": src, "as_str": repr(text)[:300], "detail": detail})


def check_entry_points(data, o, res):
    """The tree must not depend on the public entry point the script came through:
    parse(bytes) (reference), parse(str), parse_file(path)."""
    ref = _tree_or_verdict(o)
    if ref[0] == "too-deep":
        return
    runs = []
    try:
        runs.append(("str", lab.parse(data.decode("utf-8"))))
    except UnicodeDecodeError:
        pass
    with open(SHARED["tmp"], "wb") as f:
        f.write(data)
    runs.append(("file", lab.parse(data, via_file=SHARED["tmp"])))
    for via, o2 in runs:
        got = _tree_or_verdict(o2)
        res.count("entry:" + via)
        if ref[0] == "tree":
            res.count("entry-accepted:" + via)
            if b"\r" in data:
                res.count("entry-accepted-with-CR")
        bad = got != ref and got[0] != "too-deep"
        res.monitor("entry-point-same-tree", bad)
        if bad:
            res.violation({"oracle": "tree-depends-on-entry-point", "via": via,
                           "bytes": ref[0], "other": got[0]},
                          {"input": data, "via": via, "parse_bytes": repr(ref)[:300],
                           "parse_%s" % via: repr(got)[:300]})


def check_case(label, data, info, res: Result):
    o, viols, mode = evaluate(data)
    SHARED["n"] += 1
    # deferred read: the previous case's Parser object is read again now that another
    # Parser has run; what it holds must be what it held right after its own parse()
    prev = SHARED.get("deferred")
    if prev is not None:
        pp, pdata, psnap = prev
        now = lab.snapshot(pp)
        res.monitor("result-stable-while-other-parsers-run", now != psnap)
        if now != psnap:
            res.violation({"oracle": "parser-object-changed-after-another-parser-ran",
                           "what": "tree" if now[0] != psnap[0] else
                           ("error" if now[1] != psnap[1] else "error_pos")},
                          {"input": pdata, "next_input": data,
                           "right_after_parse": repr(psnap)[:300],
                           "after_next_parse": repr(now)[:300]})
    SHARED["deferred"] = (o.parser, data, lab.snapshot(o.parser)) \
        if (label != "tok" or SHARED["n"] % 4 == 0) else None
    if SHARED["tmp"] and (label in ("long", "replay") or SHARED["n"] % 16 == 0 or (
            b"\r" in data and label != "tok" and o.verdict() is True)):
        check_entry_points(data, o, res)
        if o.verdict() is True and SHARED["n"] % 16 == 0:
            check_surrogate_text(data, res)
    if SHARED["parser"] is not None:
        # same input through a Parser reused across the whole shard: same tree expected
        if SHARED.get("other") is not None and SHARED["prev"] is not None:
            # a second long-lived Parser, used alternately (on the previous input)
            lab.parse(SHARED["prev"], parser=SHARED["other"])
        o2 = lab.parse(data, parser=SHARED["parser"])
        if SHARED["n"] % 8 == 0:
            # same input a second time on the same object - after the caller has taken the
            # first tree apart (it is the caller's to edit)
            try:
                r0 = getattr(SHARED["parser"], "result", None)
                if isinstance(r0, list) and r0:
                    for c in r0:
                        if hasattr(c, "arguments") and isinstance(c.arguments, dict):
                            c.arguments.clear()
                        if hasattr(c, "children") and isinstance(c.children, list):
                            del c.children[:]
                    del r0[1:]
            except Exception:
                pass
            o2 = lab.parse(data, parser=SHARED["parser"])
            res.count("same-input-twice-runs")
        if SHARED["n"] % 8 == 4 and SHARED["prev"] is not None and len(SHARED["prev"]) > 0:
            # a mutable buffer that the caller refills in place between two parses
            buf = bytearray(SHARED["prev"])
            lab.parse(buf, parser=SHARED["parser"])
            buf[:] = data
            o2 = lab.parse(buf, parser=SHARED["parser"])
            res.count("refilled-buffer-runs")
        same = o2.verdict() == o.verdict()
        if same and o.verdict() is True:
            try:
                same = lab.nf_result(o2.result) == lab.nf_result(o.result)
            except RecursionError:
                same = True
        res.monitor("reused-parser-same-tree", not same)
        if not same:
            res.violation({"oracle": "tree-depends-on-parser-reuse",
                           "fresh": str(o.verdict()), "reused": str(o2.verdict())},
                          {"input": data, "previous_input": SHARED["prev"],
                           "fresh_tree": repr(lab.nf_result(o.result))[:200]
                           if o.verdict() is True else None,
                           "reused_tree": repr(lab.nf_result(o2.result))[:200]
                           if o2.verdict() is True else None})
            SHARED["parser"] = lab.sl_parser.Parser()
        SHARED["prev"] = data
    if viols is None:
        res.case(data, nontrivial=False)
        res.count("not-accepted")
        return o
    res.count("accepted")
    res.count("mode:%s" % mode)
    try:
        nf = lab.nf_result(o.result)
        nodes = _rich(nf)
    except RecursionError:
        nodes = 0
    res.case(data, nontrivial=nodes >= 2)
    if len(o.result) >= 2 or any(c.children for c in o.result):
        res.count("accepted-rich")
    if mode == "structure":
        res.count("structure-compared")
        res.monitor("oracle-2-structure", any(v[0]["oracle"] == "structure" for v in viols))
    if mode in ("structure", "conservation-only"):
        res.monitor("oracle-1-conservation",
                    any(v[0]["oracle"] == "conservation" for v in viols))
    for sig, detail in viols:
        wdata = data
        if res.is_new_sig(sig) and info.get("toks") and label in ("gen", "uses", "mut", "meta-base"):
            from .. import gen
            from ..core import minimise

            def pred(t):
                r = evaluate(gen.join_tokens(t))[1]
                return bool(r) and any(v[0] == sig for v in r)
            small = minimise(info["toks"], pred)
            cand = gen.join_tokens(small)
            r2 = evaluate(cand)[1]
            if r2 and any(v[0] == sig for v in r2):
                wdata = cand
                detail = [v[1] for v in r2 if v[0] == sig][0]
        res.violation(sig, {"input": wdata, "label": label, "detail": detail})
    return o


def run_shard(tier, shard, res: Result):
    from .c01 import reuse_applies
    SHARED["parser"] = lab.sl_parser.Parser() if reuse_applies(shard) else None
    SHARED["other"] = lab.sl_parser.Parser() if reuse_applies(shard) else None
    tmp = tempfile.NamedTemporaryFile(prefix="rv-c03-", suffix=".sieve", delete=False)
    tmp.close()
    SHARED["tmp"] = tmp.name
    n = 0
    try:
        for label, data, info in pwork.cases(shard):
            o = check_case(label, data, info, res)
            n += 1
            if o.verdict() is True and (n % 997 == 1 or shard["w"] != "tok" and n % 101 == 1):
                res.sample({"workload": label, "input": data,
                            "tree": repr(lab.nf_result(o.result))[:300]}, cap=3)
    finally:
        os.unlink(tmp.name)
        SHARED["tmp"] = None


def replay(witness, res: Result):
    from ..core import unjson_bytes
    tmp = tempfile.NamedTemporaryFile(prefix="rv-c03-", suffix=".sieve", delete=False)
    tmp.close()
    SHARED["tmp"] = tmp.name
    try:
        check_case("replay", unjson_bytes(witness["input"]), {}, res)
    finally:
        os.unlink(tmp.name)
