"""C06 — every script the filter factory generates is valid and self-sufficient.

Oracles on str(FiltersSet) after building through the public API:
 (1) real parser accepts, (2) R-SIEVE strict judge accepts, (3) first command is a
 require covering every extension construct in the text (disabled filters included),
 (4) structure/injection: one `if <anyof|allof> (...)` per filter with exactly the
 expected tests and actions; decoded string literals == user-supplied strings.
"""
from __future__ import annotations

import random

from .. import factlab as fl, filtgen
from ..core import Result, split

LEVEL = "exploration"
RULE = ("W-FILT: single-filter sets over every condition kind (header str/list, exists, size, "
        "envelope, address str/list, body, currentdate with/without :value, true/false; :not "
        "forms) x action kind (fileinto/redirect with :copy/:create/:flags, reject, keep, "
        "keep :flags, discard, stop, set/add/removeflag str and list, vacation with every "
        "tag) x anyof/allof x value alphabet (benign / soft: commas brackets spaces non-ASCII "
        "/ hostile: quotes backslashes newlines, never starting with a quote); W-HIST: sets "
        "reached by add/update/replace/disable/enable/move/remove histories. Non-trivial = a "
        "set was built and rendered; distinct = distinct rendered texts + definitions.")
ASSUMPTIONS = [
    "R-SIEVE strict judge and generic parser are trusted",
    "values that start with a quote character (\" or ') are excluded (the factory takes them "
    "as already quoted)",
    "a definition the factory refuses with an exception is not a C06 violation; refusal "
    "counts per kind are reported",
]
FLOORS = {
    "quick": {"rendered": 15000, "rendered-hostile": 3000, "history-sets": 1500,
              "kinds-built": 40},
    "thorough": {"rendered": 500000, "rendered-hostile": 100000, "history-sets": 50000,
                 "kinds-built": 40},
}
SHARD_TIMEOUT = {"quick": 600, "thorough": 3000}


def plan(tier, seed):
    n = 20000 if tier == "quick" else 800000
    k = 16 if tier == "quick" else 64
    shards = [{"w": "defs", "n": e - s, "rs": seed * 1000003 + i}
              for i, (s, e) in enumerate(split(n, k))]
    n2 = 2000 if tier == "quick" else 60000
    shards += [{"w": "hist", "n": e - s, "rs": seed * 7919 + i}
               for i, (s, e) in enumerate(split(n2, 8 if tier == "quick" else 32))]
    return shards


def has_special(model):
    return any(('"' in s or "\\" in s) for m in model.f for s in m.d.strings)


def judge_set(fs, model, res: Result, witness, vkind, rebuild=None):
    """rebuild(neutralise) -> (fs, model) replays the same construction with the
    characters '"' and '\\' removed from every user string (counterfactual)."""
    r = fl.render(fs)
    if r[0] != "ret":
        res.violation({"oracle": "render-raised", "exc": r[1] if r[0] == "exc" else "hang",
                       "frame": r[3] if r[0] == "exc" else "-"},
                      dict(witness, detail=repr(r)))
        return None
    text = r[1]
    res.count("rendered")
    if vkind == "hostile":
        res.count("rendered-hostile")
    viols = fl.check_rendering(text, model)
    res.monitor("rendering-oracles", bool(viols))
    if viols and rebuild is not None and has_special(model):
        # counterfactual attribution: does the violation vanish when quotes and
        # backslashes are taken out of the user values?
        fs2, model2 = rebuild(True)
        r2 = fl.render(fs2)
        v2 = fl.check_rendering(r2[1], model2) if r2[0] == "ret" else [({"oracle": "x"}, "")]
        res.count("counterfactual-runs")
        if not v2:
            sig = {"oracle": "user-value-breaks-out-of-its-literal",
                   "cause": "dquote-or-backslash-not-escaped"}
            res.violation(sig, dict(witness, output=text[:600],
                                    detail="; ".join("%s: %s" % (s, d) for s, d in viols[:2]),
                                    without_quotes_and_backslashes="no violation"))
            return text
    for sig, detail in viols[:2]:
        res.violation(sig, dict(witness, output=text[:600], detail=detail))
    return text


def run_defs(shard, res: Result):
    rng = random.Random(shard["rs"])
    for i in range(shard["n"]):
        vkind = rng.choice(["benign", "soft", "soft", "hostile"])
        if i % 3 == 0:
            d = filtgen.gen_definition(rng, vkind, ncond=1, nact=1)
        else:
            d = filtgen.gen_definition(rng, vkind)
        disable = rng.random() < 0.25

        def build(neutral, d=d, disable=disable):
            fs = fl.FiltersSet("t")
            model = fl.RList()
            dd = filtgen.neutralise(d) if neutral else d
            real, mod, ok = fl.apply_op(fs, model, ("add", "f", dd))
            if ok and disable:
                fl.apply_op(fs, model, ("disable", "f"))
            return fs, model, real, ok
        fs, model, real, ok = build(False)
        wit = {"definition": fl.describe_op(("add", "f", d))}
        if not ok:
            for k in d.kinds:
                res.count("refused-with:%s" % ":".join(k.split(":")[:2]))
            res.count("refused")
            res.observe("refusal", "%s@%s" % (real[1], real[3]))
            res.case(repr(wit), nontrivial=False)
            continue
        for k in d.kinds:
            res.observe("kinds-built", k)
        text = judge_set(fs, model, res, wit, vkind, lambda n: build(n)[:2])
        res.case(repr(wit))
        if i % 997 == 0 and text:
            res.sample({"workload": "defs", "definition": wit["definition"],
                        "output": text}, 3)
    res.counters["kinds-built"] = len(res.observed.get("kinds-built", ()))


def _neutral_history(h):
    out = []
    for op in h:
        out.append(tuple(filtgen.neutralise(x) if isinstance(x, filtgen.Definition) else x
                         for x in op))
    return out


def _play(h):
    fs = fl.FiltersSet("t")
    model = fl.RList()
    applied = []
    for op in h:
        real, mod, ok = fl.apply_op(fs, model, op)
        applied.append(fl.describe_op(op))
        # model and set must agree on what C12 owns (not judged here); also checked after a
        # definition the builder refused half-way (atomicity of a refused update is not
        # demanded by any property, but the model no longer describes such a set)
        if [f["name"] for f in fs.filters] != model.names() or any(
                f["enabled"] != m.enabled for f, m in zip(fs.filters, model.f)):
            return fs, model, applied, True
    return fs, model, applied, False


def run_hist(shard, res: Result):
    rng = random.Random(shard["rs"])
    for i in range(shard["n"]):
        vkind = rng.choice(["benign", "soft", "hostile"])
        h = fl.gen_history(rng, rng.randint(2, 9), vkind)
        fs, model, applied, desync = _play(h)
        if desync:
            res.count("history-skipped:list-behaviour-differs(C12)")
            continue
        res.count("history-sets")
        judge_set(fs, model, res, {"history": applied}, vkind,
                  lambda n: _play(_neutral_history(h))[:2])
        res.case(repr(applied))
        if i % 499 == 0:
            res.sample({"workload": "hist", "history": applied[:4]}, 2)


def run_shard(tier, shard, res: Result):
    if shard["w"] == "defs":
        run_defs(shard, res)
    else:
        run_hist(shard, res)
