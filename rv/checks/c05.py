"""C05 — ManageSieve replies are read identically however the bytes are segmented.

Metamorphic monitor: for a fixed server byte stream the outcome of the operation and of two
sentinel operations issued next must be identical under every segmentation to the outcome
under single-segment delivery; afterwards the client must have consumed exactly the bytes of
the replies (M-QUIESCE).
"""
from __future__ import annotations

import random

from .. import mslab, msmodel as ms, textgen
from ..core import Result, split

LEVEL = "exploration"
RULE = ("operations connect, capability, listscripts, getscript, putscript, checkscript, "
        "deletescript, renamescript, setactive, havespace x a reply corpus from the RFC 5804 "
        "reply grammar (quoted and literal strings, response codes, multi-line listings, "
        "script bodies with protocol look-alike lines OK / NO \"x\" / BYE / {5} / \"a\" ACTIVE, "
        "binary-ish and multi-byte content) x segmentations: every single cut point, every "
        "pair of cut points for streams <= 48 bytes, recv() capped at 1/2/3/7/64 bytes, 20 "
        "random k-way splits; plus boundary replies whose total length is 4096/8192/12288 "
        "-2..+2 octets (getscript literal, 41-entry listing, status with literal text) under "
        "whole delivery, caps 1..4096, cuts around every block boundary. Non-trivial = segmented execution (not the whole-delivery "
        "baseline); distinct = distinct (op, stream, segmentation).")
ASSUMPTIONS = [
    "the baseline is single-segment delivery of the same stream; only *differences* between "
    "segmentations are judged here (whether the baseline itself is right is C09/C17's)",
    "recv() never blocks: an exhausted stream raises socket.timeout",
]
FLOORS = {
    "quick": {"segmented-executions": 30000, "segmented-executions-with-client-debug": 8000,
              "segmented-executions-over-tls": 15000, "segmented-executions-on-a-slow-link": 5000,
              "executions-on-a-client-with-a-broken-off-literal-behind-it": 1500, "cut-inside-literal": 3000, "streams": 150,
              "boundary-streams-exact-multiple-of-read-size": 12,
              "big-literals-on-a-client-that-read-a-big-literal-before": 5},
    "thorough": {"segmented-executions": 1500000,
                 "segmented-executions-with-client-debug": 300000,
                 "segmented-executions-over-tls": 400000, "cut-inside-literal": 100000,
                 "streams": 3000, "boundary-streams-exact-multiple-of-read-size": 12},
}
SHARD_TIMEOUT = {"quick": 600, "thorough": 3000}

BODIES = [b"keep;\r\n", b"", b"a", b'OK "fake"\r\nkeep;\r\n', b'NO "x"\r\nstop;\r\n',
          b"BYE\r\n", b"{5}\r\nabcde\r\n", b'"a" ACTIVE\r\n', b"l1\r\nl2\r\nl3",
          b"# \xc3\xa9\xc3\xa8 \xe2\x82\xac\r\nkeep;\r\n", b"\r\n\r\n", b"x" * 70,
          b'if true {\r\n  fileinto "a";\r\n}\r\n', b"OK\r\n", b"\x00\x01\xff\r\n"]
NAMES = [b"main", b"x y", b"q\"q", b"{5}", b"OK", b"\xc3\xa9t\xc3\xa9", b"a\\b", b"ACTIVE"]
TEXTS = [None, b"done", b'say "hi"', b"l1\r\nl2", b"", b"{3}"]
CODES = [None, b"WARNINGS", b"QUOTA/MAXSIZE", b'TAG "t"']


def reply_corpus(rng, n):
    """-> list of (op, args, server bytes for that op)"""
    out = []
    how = lambda: rng.choice(["quoted", "literal"])  # noqa

    def drawn(pool, lo=0, hi=10, lines=1):
        # W-TEXT: a quarter of the bodies, names and texts come from broad character classes
        if rng.random() >= 0.25:
            return rng.choice(pool)
        return "".join(textgen.text(rng, lo, hi) + (rng.choice(["\r\n", "\n", ""]) if lines > 1 else "")
                       for _ in range(rng.randint(1, lines))).encode("utf-8")

    def st(kind):
        return ms.status(kind, rng.choice(CODES), drawn(TEXTS), how())
    for _ in range(n):
        op = rng.choice(["getscript", "getscript", "listscripts", "listscripts", "capability",
                         "putscript", "checkscript", "deletescript", "renamescript",
                         "setactive", "havespace"])
        kind = rng.choice(["OK", "OK", "OK", "NO"])
        if op == "getscript":
            args = ("x",)
            body = b""
            if kind == "OK":
                body = ms.enc_string(drawn(BODIES, lines=5), rng.choice(["literal", "literal",
                                                                     "quoted"])) + ms.CRLF
            out.append((op, args, body + st(kind)))
        elif op == "listscripts":
            args = ()
            body = b""
            if kind == "OK":
                names = rng.sample(NAMES, rng.randint(0, 4))
                if names and rng.random() < 0.25:
                    nm = drawn(NAMES, lo=1, hi=8)
                    if nm not in names:
                        names[rng.randrange(len(names))] = nm
                act = rng.choice(names) if names and rng.random() < 0.7 else None
                for nm in names:
                    body += ms.enc_string(nm, how())
                    if nm == act:
                        body += b" ACTIVE"
                    body += ms.CRLF
            out.append((op, args, body + st(kind)))
        elif op == "capability":
            body = b""
            if kind == "OK":
                body = (b'"IMPLEMENTATION" ' + ms.enc_string(b"impl \"x\"", how()) + ms.CRLF
                        + b'"SASL" "PLAIN LOGIN"\r\n"SIEVE" '
                        + ms.enc_string(b"fileinto vacation", how()) + ms.CRLF
                        + b'"STARTTLS"\r\n')
            out.append((op, (), body + st(kind)))
        else:
            args = {"putscript": ("x", "keep;"), "checkscript": ("keep;",),
                    "deletescript": ("x",), "renamescript": ("x", "y"), "setactive": ("x",),
                    "havespace": ("x", 5)}[op]
            out.append((op, args, st(kind)))
    return out


SENT = b'OK "sentinel one"\r\nNO (SENTINEL-7) "sentinel two"\r\n'


def execute(op, args, stream, seg, connect_stream=None, debug=False, tls=False, slow=False,
            past=False):
    """Run op + two sentinels against `stream` under segmentation `seg`.
    -> (outcome key, unread bytes, client buffer)"""
    srv = ms.Server(users={b"user": b"pw"}, encodings="quoted")
    if past:
        # the client object has a past: an earlier connection on which a literal broke off
        # half-way (announced {100}, 40 octets in small pieces, then the peer closed)
        srv0 = ms.Server(users={b"user": b"pw"}, encodings="quoted")
        sess = mslab.Session(srv0, ms.Seg(), debug=debug)
        if sess.connect("user", "pw") != ("ret", True):
            return None
        srv0.canned = [b"{100}\r\n" + b"p" * 40]
        sess.sock.seg = ms.Seg(cap=7)
        srv0.eof_after_canned = True
        sess.call("getscript", "gone")
        sess.server = srv
        sess.seg = ms.Seg()
        sess.wire = ms.Wire()
        r = sess.connect("user", "pw", starttls=True) if tls else sess.connect("user", "pw")
        if r == ("ret", True):
            # ... and, on this connection, an earlier big reply that was read completely (a
            # script of 6000 octets, larger than the client's read size, delivered whole)
            srv.canned = [b"{6000}\r\n" + b"# earlier script\r\n" * 333 + b"#567\r\n" + b"\r\nOK\r\n"]
            early = sess.call("getscript", "earlier")
            if early[0] != "ret" or not isinstance(early[1], str) or len(early[1]) < 5000:
                return None
    else:
        sess, r = mslab.authed_session(srv, debug=debug, starttls=tls)
    if r != ("ret", True):
        return None
    srv.canned = [stream, b'OK "sentinel one"\r\n', b'NO (SENTINEL-7) "sentinel two"\r\n']
    # segmentation applies to the stream of this operation and the sentinels
    seg.offset = 0
    sess.sock.seg = seg
    if slow:
        # a slow but steady link: a virtual second passes with every recv(), none times out
        sess.sock.seconds_per_recv = 1.0
    o = sess.call(op, *args)
    first = (mslab.outcome_key(o), repr(sess.client.errcode), repr(sess.client.errmsg))
    s1 = sess.call("havespace", "s", 1)
    s2 = sess.call("deletescript", "s2")
    key = (first, mslab.outcome_key(s1), mslab.outcome_key(s2), repr(sess.client.errcode))
    left, buf = sess.unread()
    return key, left, buf


def literal_spans(stream):
    """byte ranges (start, end) of literal bodies in a server stream"""
    import re
    spans = []
    pos = 0
    for m in re.finditer(rb"\{(\d+)\}\r\n", stream):
        if m.start() < pos:
            continue
        s = m.end()
        e = s + int(m.group(1))
        spans.append((s, e))
        pos = e
    return spans


def segmentations(total, rng, tier):
    segs = []
    for c in range(1, total):
        segs.append(("cut", (c,)))
    if total <= 48:
        for a in range(1, total):
            for b in range(a + 1, total):
                segs.append(("cut2", (a, b)))
    for cap in (1, 2, 3, 7, 64):
        segs.append(("cap", cap))
    for i in range(20):
        segs.append(("random", rng.randrange(1 << 30)))
    return segs


def mkseg(kind, p):
    if kind in ("cut", "cut2"):
        return ms.Seg(cuts=list(p))
    if kind == "cap":
        return ms.Seg(cap=p)
    return ms.Seg(rng=random.Random(p))


def plan(tier, seed):
    n = 240 if tier == "quick" else 5000
    k = 16 if tier == "quick" else 64
    shards = [{"w": "replies", "n": e - s, "rs": seed * 1000003 + i}
              for i, (s, e) in enumerate(split(n, k))]
    shards.append({"w": "connect", "rs": seed})
    shards += [{"w": "boundary", "part": i, "of": 8, "rs": seed * 977 + 5} for i in range(8)]
    return shards


READ_SIZES = (4096, 8192, 12288)


def boundary_corpus(rng):
    """Replies whose total length sits on / next to a multiple of the client's read size
    (Client.read_size = 4096): with whole delivery one recv() returns exactly a full block
    and nothing more is pending, although the reply is complete."""
    out = []
    for target in READ_SIZES:
        for delta in (-2, -1, 0, 1, 2):
            want = target + delta
            for kind in ("OK", "NO"):
                st = ms.status(kind, rng.choice(CODES), rng.choice(TEXTS), "quoted")
                # getscript: literal body padded so that the whole reply is `want` bytes
                if kind == "OK":
                    for n in range(want, 0, -1):
                        body = b"{%d}\r\n" % n + (b"# pad\r\n" * (n // 7 + 1))[:n] + ms.CRLF
                        if len(body) + len(st) == want:
                            out.append(("getscript", ("x",), body + st))
                            break
                        if len(body) + len(st) < want:
                            break
                    # listscripts: many names, the last one padded
                    lines = b"".join(ms.enc_string(b"script-%d" % i, "quoted") + ms.CRLF
                                     for i in range(40))
                    room = want - len(lines) - len(st) - 4
                    if room > 0:
                        out.append(("listscripts", (), lines + b'"' + b"n" * room + b'"' + ms.CRLF + st))
                # status-only operation: the human-readable text is a padded literal
                for op, args in (("deletescript", ("x",)), ("putscript", ("x", "keep;"))):
                    for n in range(want, 0, -1):
                        stx = ms.status(kind, b"TAG", b"t" * n, "literal")
                        if len(stx) == want:
                            out.append((op, args, stx))
                            break
                        if len(stx) < want:
                            break
    return out


def run_replies(shard, res: Result, tier):
    rng = random.Random(shard["rs"])
    if shard["w"] == "boundary":
        corpus = boundary_corpus(rng)
        corpus = [c for i, c in enumerate(corpus) if i % shard["of"] == shard["part"]]
    else:
        corpus = reply_corpus(rng, shard["n"])
    for op, args, stream in corpus:
        if shard["w"] == "boundary":
            res.count("boundary-streams")
            res.observe("boundary-stream-lengths", str(len(stream)))
            if len(stream) % 4096 == 0:
                res.count("boundary-streams-exact-multiple-of-read-size")
        base = execute(op, args, stream, ms.Seg())
        if base is None:
            res.inconclusive.append("auth failed")
            continue
        res.count("streams")
        total = len(stream) + len(SENT)
        spans = literal_spans(stream)
        segs = segmentations(min(total, len(stream) + 4), rng, tier)
        if len(stream) > 200:
            segs = [s for s in segs if s[0] != "cut" or s[1][0] % 3 == 0 or
                    any(a - 2 <= s[1][0] <= a + 2 or e - 2 <= s[1][0] <= e + 2
                        for a, e in spans)]
        if len(stream) > 2000:
            segs = [s for s in segs if s[0] != "cut" or s[1][0] % 257 == 0 or
                    s[1][0] > len(stream) - 8 or abs(s[1][0] % 4096 - 4096) <= 2
                    or s[1][0] % 4096 <= 2] + [("cap", 1000), ("cap", 4095), ("cap", 4096)]
        # the client's debug switch only adds traces: streams with non-ASCII octets (where a
        # cut can fall inside a character) and every 5th other stream also run with it
        try:
            stream.decode("ascii")
            dbg = res.counters.get("streams", 0) % 5 == 0
        except UnicodeDecodeError:
            dbg = True
        runs = [(k, p, False, False) for k, p in segs] + (
            [(k, p, True, False) for k, p in segs] if dbg else [])
        if res.counters.get("streams", 0) % 3 == 0 or len(stream) > 2000:
            # the same stream over the TLS-wrapped transport (connect with STARTTLS): the
            # segments are TLS records, the socket is an ssl.SSLSocket with pending()
            runs += [(k, p, False, True) for k, p in segs]
        runs = [r + (False,) for r in runs] + [
            (k, p, False, False, True) for k, p in segs if k in ("cap", "random") or
            (k == "cut" and p[0] % 5 == 0)]
        runs = [r + (False,) for r in runs]
        if op in ("getscript", "listscripts", "capability"):
            runs += [(k, p, False, False, False, True) for k, p in [("cap", 64), ("cap", 4096)] +
                     [sg for sg in segs if sg[0] == "cut"][::4]]
            if any(e - a > 4096 for a, e in spans):
                # a big literal after the earlier big one: delivery that ends exactly behind
                # the size line (nothing of the literal buffered yet), and tiny reads
                runs += [(k, p, False, False, False, True) for k, p in
                         [("cut", (a,)) for a, e in spans if e - a > 4096] +
                         [("cap", 1), ("cap", 2), ("cap", 8)]]
                res.count("big-literals-on-a-client-that-read-a-big-literal-before")
        for kind, p, debug, tls, slow, past in runs:
            got = execute(op, args, stream, mkseg(kind, p), debug=debug, tls=tls, slow=slow,
                          past=past)
            if past:
                res.count("executions-on-a-client-with-a-broken-off-literal-behind-it")
            res.count("segmented-executions")
            if slow:
                res.count("segmented-executions-on-a-slow-link")
            if tls:
                res.count("segmented-executions-over-tls")
            if debug:
                res.count("segmented-executions-with-client-debug")
                kind_l = kind
            res.observe("segmentation-kinds", kind)
            res.case(repr((op, stream, kind, p, debug, tls, slow, past)))
            inside = kind in ("cut", "cut2") and any(a < c < e for c in p for a, e in spans)
            if inside:
                res.count("cut-inside-literal")
            differs = got[0] != base[0]
            res.monitor("segmentation-metamorphic", differs)
            if differs:
                what = _what(got[0], base[0])
                res.violation({"op": op if op in ("getscript", "listscripts", "capability")
                               else "status-only", "differs": what,
                               "cut": "inside-literal" if inside else
                               ("cap/random" if kind in ("cap", "random") else
                                "outside-literal")},
                              {"op": op, "stream": stream, "segmentation": [kind, repr(p)],
                               "client_debug": debug, "over_tls": tls, "slow_link": slow, "broken_past": past,
                               "whole": repr(base[0])[:300], "segmented": repr(got[0])[:300]})
                continue
            # quiescence only where the baseline itself is quiescent
            if not base[1] and not base[2]:
                dirty = bool(got[1]) or bool(got[2])
                res.monitor("quiesce", dirty)
                if dirty:
                    res.violation({"op": "any", "differs": "bytes-left-unread", "cut": kind},
                                  {"op": op, "stream": stream, "segmentation": [kind, repr(p)],
                                   "unread": repr(got[1:])})
        res.sample({"op": op, "stream": stream}, 3)


def _what(a, b):
    if a[0] != b[0]:
        return "operation-result"
    if a[1] != b[1] or a[2] != b[2]:
        return "next-operations"
    return "errcode"


def run_connect(shard, res: Result):
    """connect(): greeting + capabilities + authentication under every single cut."""
    rng = random.Random(shard["rs"])
    for variant in range(6):
        how = ["quoted", "literal"][variant % 2]
        def build():
            srv = ms.Server(users={b"user": b"pw"}, encodings=how,
                            sasl=("PLAIN", "LOGIN") if variant < 4 else ("LOGIN",))
            return srv
        def run(seg):
            srv = build()
            sess = mslab.Session(srv, seg)
            if variant % 3 == 2:
                # the client object has a past: an earlier session (delivered whole), then
                # ten idle seconds (virtual time), then this connect
                sess.seg = ms.Seg()
                sess.server = build()
                sess.connect("user", "pw")
                sess.call("logout")
                ms.let_time_pass(10.0)
                sess.server = srv
                sess.seg = seg
                sess.wire = ms.Wire()
                seg.offset = 0
            o = sess.connect("user", "pw")
            l = sess.call("listscripts") if o == ("ret", True) else None
            return (mslab.outcome_key(o), sess.client.authenticated,
                    mslab.outcome_key(l) if l else None,
                    sorted(getattr(sess.client, "_Client__capabilities", {}).items(),
                           key=repr)), sess.unread()
        base = run(ms.Seg())
        res.count("streams")
        total = 400
        segs = [("cut", (c,)) for c in range(1, 200)] + [("cap", c) for c in (1, 2, 3, 7, 64)] \
            + [("random", rng.randrange(1 << 30)) for _ in range(20)]
        for kind, p in segs:
            got = run(mkseg(kind, p))
            res.count("segmented-executions")
            res.case(repr(("connect", variant, kind, p)))
            differs = got[0] != base[0]
            res.monitor("segmentation-metamorphic", differs)
            if differs:
                res.violation({"op": "connect", "differs": "operation-result",
                               "cut": "cap/random" if kind != "cut" else "single"},
                              {"op": "connect", "variant": variant,
                               "segmentation": [kind, repr(p)],
                               "whole": repr(base[0])[:300], "segmented": repr(got[0])[:300]})


BLOCK = {"evals": 0, "short": []}


def block_returns_what_was_asked(size, result):
    BLOCK["evals"] += 1
    if len(result) != size:
        BLOCK["short"].append((size, len(result)))
    return True


def install_block_contract():
    """Auxiliary M-CONTRACT on the block reader (name-mangled; absence only downgrades
    this monitor to 'not reached'): bytes returned == bytes requested unless it raised."""
    from .. import contracts
    cls = mslab.Client
    fn = getattr(cls, "_Client__read_block", None)
    if fn is None or getattr(fn, "_rv", False):
        return fn is not None
    if contracts.HAVE_ICONTRACT:
        w = contracts.icontract.ensure(block_returns_what_was_asked, error=AssertionError)(fn)
    else:
        def w(self, size):
            r = fn(self, size)
            block_returns_what_was_asked(size, r)
            return r
    w._rv = True
    setattr(cls, "_Client__read_block", w)
    return True


def run_shard(tier, shard, res: Result):
    have = install_block_contract()
    res.observe("block-reader-contract", "installed" if have else "not-reached")
    try:
        _run_shard(tier, shard, res)
    finally:
        res.monitors["block-reader-returns-requested-size"] = [BLOCK["evals"],
                                                               len(BLOCK["short"])]
        if BLOCK["short"]:
            res.violation({"op": "any", "differs": "block-reader-short-read", "cut": "any"},
                          {"asked_vs_got": BLOCK["short"][:5]})


def _run_shard(tier, shard, res: Result):
    if shard["w"] in ("replies", "boundary"):
        run_replies(shard, res, tier)
    else:
        run_connect(shard, res)


def replay(witness, res: Result):
    from ..core import unjson_bytes
    install_block_contract()
    op = witness["op"]
    if op == "connect":
        print("replay of connect cases: re-run the check; witness:", witness)
        return
    stream = unjson_bytes(witness["stream"])
    kind, p = witness["segmentation"]
    p = eval(p, {"__builtins__": {}})  # a tuple/int written by repr()
    args = {"getscript": ("x",), "listscripts": (), "capability": (), "putscript": ("x", "keep;"),
            "checkscript": ("keep;",), "deletescript": ("x",), "renamescript": ("x", "y"),
            "setactive": ("x",), "havespace": ("x", 5)}[op]
    base = execute(op, args, stream, ms.Seg())
    got = execute(op, args, stream, mkseg(kind, p), debug=bool(witness.get("client_debug")),
                  tls=bool(witness.get("over_tls")), slow=bool(witness.get("slow_link")),
                  past=bool(witness.get("broken_past")))
    print("whole    :", base[0])
    print("segmented:", got[0])
    if got[0] != base[0]:
        res.violation({"op": op, "differs": _what(got[0], base[0]), "cut": "replay"},
                      {"op": op, "stream": stream, "segmentation": [kind, repr(p)]})
