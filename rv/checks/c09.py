"""C09 — operation results mirror the server's status reply.

R-MS (canned mode) knows the status it sent: success (True / data) <=> OK, False/None <=> NO
with errcode/errmsg holding the response code and text, BYE => managesieve.Error; two
sentinel operations issued afterwards reveal any desynchronisation.
"""
from __future__ import annotations

import itertools
import random

from .. import mslab, msmodel as ms, textgen
from ..core import Result, split

LEVEL = "exploration"
RULE = ("every operation (havespace, putscript, checkscript, deletescript, setactive, "
        "renamescript native, getscript, listscripts, capability) x status OK/NO/BYE x "
        "response code (absent, atom, atom with slash, TAG/SASL/REFERRAL with a string "
        "parameter, WARNINGS) x text (absent, quoted plain / with escaped quote / with "
        "backslash / non-ASCII / 1022, 1023, 1024 octets (the quoted-string maximum), literal "
        "one-line / multi-line / empty / 1024, 1025, 4096, 70000 octets) - the full product; "
        "plus NO/BYE at each step of connect and of the emulated rename (this product is "
        "enumerated completely in both tiers); plus random replies from the grammar (random "
        "code atoms with slashes, string parameters, texts with escapes / non-ASCII / CRLF / "
        "status look-alikes, quoted or literal) served in runs of several replies on one "
        "connection under random recv() segmentation (quick 4 000, thorough 400 000). Every "
        "case is preceded by a priming NO with its own code and text. Non-trivial = every "
        "case; distinct = distinct (op, reply bytes).")
ASSUMPTIONS = [
    "lenient on representation: errmsg may be the raw or the unescaped quoted content, with "
    "or without the CRLF that follows a literal; an absent code/text may be b'' or None",
    "upper-case status atoms only",
    "multi-step operations: a NO at an inner step may surface as False/None or as Error",
]
EXHAUSTIVE = {"quick": False, "thorough": False}
FLOORS = {"quick": {"cases": 2000, "status:NO": 700, "status:BYE": 500, "status:OK": 500,
                    "sentinel-pairs": 1200, "random-cases": 3000,
                    "slow-starttls-connects": 15, "logout-cases": 100,
                    "replies-that-differ-from-the-previous-one-only-inside-a-literal": 150},
          "thorough": {"cases": 1500000, "status:NO": 500000, "status:BYE": 250000,
                       "status:OK": 250000, "sentinel-pairs": 500000, "random-cases": 1500000}}
SHARD_TIMEOUT = {"quick": 600, "thorough": 3000}

CODES = [("none", None), ("atom", b"QUOTA"), ("slash", b"QUOTA/MAXSCRIPTS"),
         ("nonexistent", b"NONEXISTENT"), ("tag-param", b'TAG "abc"'),
         ("sasl-param", b'SASL "YWJj"'), ("referral", b'REFERRAL "sieve://h.example/"'),
         ("warnings", b"WARNINGS"), ("active", b"ACTIVE"),
         ("tag-param-1024", b'TAG "' + b"t" * 1024 + b'"')]
TEXTS = [("none", None, None), ("quoted", b"Quota exceeded", "quoted"),
         ("quoted-escq", b'say "hi" now', "quoted"), ("quoted-bsl", b"back\\slash", "quoted"),
         ("quoted-utf8", "déjà vu €".encode(), "quoted"),
         ("quoted-parens", b"(not a code) x", "quoted"),
         ("quoted-lit-lookalike", b"{5}", "quoted"),
         ("literal", b"line one", "literal"), ("literal-multi", b"line 1\r\nline 2", "literal"),
         ("literal-empty", b"", "literal"), ("quoted-empty", b"", "quoted"),
         ("literal-ok-lookalike", b'OK "fake"\r\nNO more', "literal"),
         # RFC 5804: a quoted string holds at most 1024 octets; longer text needs a literal
         ("quoted-1022", b"q" * 1022, "quoted"), ("quoted-1023", b"q" * 1023, "quoted"),
         ("quoted-1024", b"q" * 1024, "quoted"),
         ("quoted-1024-utf8", "é".encode() * 512, "quoted"),
         ("literal-1024", b"l" * 1024, "literal"), ("literal-1025", b"l" * 1025, "literal"),
         ("literal-4096", b"l" * 4096, "literal"), ("literal-70000", b"l" * 70000, "literal"),
         # RFC 5804 literals go up to 2^32-1 octets; well past every megabyte-sized guard
         ("literal-5MiB", b"m" * (5 * 1024 * 1024 + 3), "literal")]
BOOL_OPS = {"havespace": ("x", 10), "putscript": ("x", "keep;"), "checkscript": ("keep;",),
            "deletescript": ("x",), "setactive": ("x",), "renamescript": ("x", "y")}
DATA_OPS = {"getscript": ("x",), "listscripts": (), "capability": ()}
DATA = {"getscript": b"{7}\r\nkeep;\r\n\r\n", "listscripts": b'"a" ACTIVE\r\n"b"\r\n',
        "capability": b'"IMPLEMENTATION" "x"\r\n"SIEVE" "fileinto"\r\n'}


def all_cases():
    out = []
    for op in list(BOOL_OPS) + list(DATA_OPS):
        for st in ("OK", "NO", "BYE"):
            for cn, code in CODES:
                for tn, text, how in TEXTS:
                    if tn == "literal-5MiB" and (cn not in ("none", "warnings") or
                                                 op not in ("deletescript", "getscript",
                                                            "putscript")):
                        continue  # the big one only where it adds something
                    out.append((op, st, cn, code, tn, text, how))
    return out


def plan(tier, seed):
    n = len(all_cases())
    shards = [{"w": "product", "range": [s, e]} for s, e in split(n, 16)]
    shards.append({"w": "multistep"})
    nr = 4000 if tier == "quick" else 2000000
    for i, (s, e) in enumerate(split(nr, 16 if tier == "quick" else 64)):
        shards.append({"w": "random", "n": e - s, "rs": seed * 1000003 + i})
    return shards


def reply_bytes(st, code, text, how):
    return ms.status(st, code, text, how or "quoted")


def acceptable_msgs(text, how):
    if text is None:
        return {b"", None}
    out = {text, text + b"\r\n"}
    if how == "quoted":
        esc = text.replace(b"\\", b"\\\\").replace(b'"', b'\\"')
        out |= {esc}
    return out


def run_case(case, res: Result, sess=None):
    op, st, cn, code, tn, text, how = case
    if sess is None:
        srv = ms.Server(users={b"user": b"pw"})
        sess, r = mslab.authed_session(srv)
        if r != ("ret", True):
            res.inconclusive.append("auth failed %r" % (r,))
            return False
    srv = sess.server
    final = reply_bytes(st, code, text, how)
    body = DATA[op] if (op in DATA_OPS and st == "OK") else b""
    # priming: an earlier NO with its own code and text on the same client, so that values
    # left over from a previous reply cannot pass for the ones of the reply under test
    srv.canned = [b'NO (PRIMER-CODE) "primer text"\r\n']
    pr = sess.call("deletescript", "primer")
    if pr != ("ret", False) or sess.client.errcode != b"PRIMER-CODE":
        res.count("primer-not-mirrored")
    srv.canned = [body + final, b'OK "sentinel one"\r\n',
                  b'NO (SENTINEL-7) "sentinel two"\r\n']
    args = BOOL_OPS.get(op) or DATA_OPS[op]
    out = sess.call(op, *args)
    res.count("cases")
    res.count("status:" + st)
    res.observe("reply-shapes", "%s/%s/%s" % (st, cn, tn))
    res.case(repr((op, body + final)))
    wit = {"op": op, "reply": body + final, "outcome": repr(out)[:200],
           "errcode": repr(sess.client.errcode), "errmsg": repr(sess.client.errmsg)}
    sig0 = {"status": st, "code": cn if cn in ("none",) else
            ("with-string-param" if b'"' in (code or b"") else "atom"),
            "text": "none" if text is None else how}
    problem = None
    if st == "BYE":
        if not (out[0] == "exc" and out[1] == "Error"):
            problem = "BYE-did-not-raise-Error:" + (out[1] if out[0] == "exc" else
                                                    "returned" if out[0] == "ret" else "hang")
    elif st == "OK":
        if out[0] != "ret":
            problem = "OK-raised:" + (out[1] if out[0] == "exc" else "hang")
        elif op in BOOL_OPS and out[1] is not True:
            problem = "OK-returned-%r" % (out[1],)
        elif op in DATA_OPS and out[1] is None:
            problem = "OK-returned-None"
    else:
        if out[0] != "ret":
            problem = "NO-raised:" + (out[1] if out[0] == "exc" else "hang") + \
                (":" + out[2][:30] if out[0] == "exc" else "")
        elif op in BOOL_OPS and out[1] is not False:
            problem = "NO-returned-%r" % (out[1],)
        elif op in DATA_OPS and out[1] is not None:
            problem = "NO-returned-data"
        else:
            ec, em = sess.client.errcode, sess.client.errmsg
            want_code = {code, (code or b"")} if code is not None else {b"", None}
            if ec not in want_code:
                problem = "errcode"
            elif em not in acceptable_msgs(text, how):
                problem = "errmsg"
    res.monitor("status-mirror", problem is not None)
    if problem:
        res.violation(dict(sig0, problem=problem), wit)
        return False
    if st == "BYE":
        return False
    # sentinels: the next two operations must get their own replies
    s1 = sess.call("havespace", "s", 1)
    s2 = sess.call("deletescript", "s2")
    res.count("sentinel-pairs")
    ok = (s1 == ("ret", True) and s2 == ("ret", False)
          and sess.client.errcode == b"SENTINEL-7")
    left, buf = sess.unread()
    res.monitor("sentinels", not ok)
    if not ok or left or buf:
        res.violation(dict(sig0, problem="desynchronised-after-reply"),
                      dict(wit, sentinel1=repr(s1), sentinel2=repr(s2),
                           sentinel_errcode=repr(sess.client.errcode),
                           unread=repr((left, buf))))
        return False
    return True


ATOMCH = "ABCDEFGHIJKLMNOPQRSTUVWXYZ0123456789-/"
TEXTCH = ["a", "B", " ", "\"", "\\", "(", ")", "{", "}", "3", "é", "€", "OK", "NO", "BYE", "'",
          ";", "%"]


def random_case(rng):
    op = rng.choice(list(BOOL_OPS) + list(DATA_OPS))
    st = rng.choice(["OK", "NO", "NO", "BYE"])
    code = None
    cn = "none"
    if rng.random() < 0.6:
        code = "".join(rng.choice(ATOMCH) for _ in range(rng.randint(1, 12))).strip("/-") or "X"
        code = code.encode()
        cn = "atom"
        if rng.random() < 0.4:
            par = "".join(rng.choice(TEXTCH) for _ in range(rng.randint(0, 6)))
            if rng.random() < 0.3:
                par = textgen.text(rng, 0, 6)
                if not ms.can_quote(par.encode("utf-8")):
                    par = "p"
            code += b" " + ms.quoted(par.encode("utf-8"))
            cn = "with-string-param"
    text, how, tn = None, None, "none"
    if rng.random() < 0.8:
        t = "".join(rng.choice(TEXTCH + ["\r\n"]) for _ in range(rng.randint(0, 10)))
        if rng.random() < 0.3:
            t = textgen.text(rng, 0, 10)  # W-TEXT: broad character classes
        text = t.encode("utf-8")
        how = "literal" if (not ms.can_quote(text) or rng.random() < 0.4) else "quoted"
        tn = how
    return (op, st, cn, code, tn, text, how)


def run_random(shard, res: Result):
    rng = random.Random(shard["rs"])
    sess = None
    prev = None
    for i in range(shard["n"]):
        if sess is None or rng.random() < 0.2:
            prev = None
            srv = ms.Server(users={b"user": b"pw"})
            seg = ms.Seg(rng=random.Random(rng.randrange(1 << 30))) if rng.random() < 0.5 \
                else ms.Seg()
            sess, r = mslab.authed_session(srv, seg)
            if r != ("ret", True):
                res.inconclusive.append("auth failed %r" % (r,))
                return
            if rng.random() < 0.3:
                # slow but steady link: virtual seconds pass with every recv(), none times out
                sess.sock.seconds_per_recv = rng.choice([0.5, 2.0, 4.0])
                res.count("sessions-on-a-slow-link")
        res.count("random-cases")
        case = random_case(rng)
        if prev is not None and sess is not None and rng.random() < 0.3:
            # a reply that differs from the previous one on this connection only INSIDE its
            # literal text: same status, same code, same announced length
            op0, st0, cn0, code0, tn0, text0, how0 = prev
            twin = text0[::-1] if text0[::-1] != text0 else bytes((b ^ 1) if b > 32 else b for b in text0)
            if twin != text0:
                case = (rng.choice(list(BOOL_OPS) + list(DATA_OPS)), st0, cn0, code0, tn0, twin, how0)
                res.count("replies-that-differ-from-the-previous-one-only-inside-a-literal")
        prev = case if (case[6] == "literal" and case[5]) else None
        if not run_case(case, res, sess):
            sess = None
            prev = None


def run_multistep(res: Result):
    # connect over STARTTLS with every reply OK: success, however long the handshake and the
    # replies take (virtual time; no recv() ever times out)
    for hs, per in ((0.0, 0.0), (7.0, 0.0), (0.0, 2.0), (30.0, 3.0), (4.9, 0.5)):
        for mech in (None, "PLAIN", "LOGIN"):
            srv = ms.Server(users={b"user": b"pw"}, sasl=["PLAIN", "LOGIN"], starttls=True)
            sess = mslab.Session(srv)
            sess.handshake_seconds, sess.seconds_per_recv = hs, per
            out = sess.call("connect", "user", "pw", starttls=True, authmech=mech)
            res.count("cases")
            res.count("status:OK")
            res.count("slow-starttls-connects")
            res.case("connect/starttls/slow/%s/%s/%s" % (hs, per, mech))
            ok = out == ("ret", True)
            res.monitor("status-mirror", not ok)
            if not ok:
                res.violation({"status": "OK", "code": "none", "text": "quoted",
                               "problem": "all-OK-starttls-connect:%s" % (
                                   out[1] if out[0] == "exc" else repr(out[1]))},
                              {"op": "connect", "handshake_seconds": hs,
                               "seconds_per_recv": per, "outcome": repr(out)[:200]})
    # logout: the reply to LOGOUT is a final reply like any other - BYE raises Error whatever
    # its shape, OK does not raise
    for st in ("OK", "BYE"):
        for cn, code in CODES[:5]:
            for tn, text, how in TEXTS[:10]:
                srv = ms.Server(users={b"user": b"pw"})
                sess, r = mslab.authed_session(srv)
                srv.canned = [reply_bytes(st, code, text, how)]
                out = sess.call("logout")
                res.count("cases")
                res.count("status:" + st)
                res.count("logout-cases")
                res.case("logout/%s/%s/%s" % (st, cn, tn))
                ok = (out[0] == "exc" and out[1] == "Error") if st == "BYE" else out[0] == "ret"
                res.monitor("status-mirror", not ok)
                if not ok:
                    res.violation({"status": st, "code": "none" if code is None else "atom",
                                   "text": "none" if text is None else how,
                                   "problem": "logout-%s:%s" % (st, out[1] if out[0] == "exc"
                                                                else "returned")},
                                  {"op": "logout", "reply": reply_bytes(st, code, text, how),
                                   "outcome": repr(out)[:200]})
    # connect: fault at greeting and at authentication, for every mechanism (the verdict of a
    # multi-step exchange is its LAST reply: after the DIGEST-MD5 rspauth, after LOGIN's
    # second answer)
    for step, mech in [("greeting", "PLAIN")] + [("auth-verdict", m) for m in
                                                 ("PLAIN", "LOGIN", "DIGEST-MD5", "OAUTHBEARER")]:
        for f in ("NO", "BYE"):
            srv = ms.Server(users={b"user": b"pw"}, faults={step: f}, sasl=[mech])
            sess = mslab.Session(srv)
            out = sess.call("connect", "user", "pw", authmech=mech)
            res.observe("connect-refused-under-mechanism", mech)
            res.count("cases")
            res.count("status:" + f)
            res.case("connect/%s/%s/%s" % (step, f, mech))
            ok = (out[0] == "exc" and out[1] == "Error") if f == "BYE" else \
                (out == ("ret", False) or (out[0] == "exc" and out[1] == "Error"))
            res.monitor("status-mirror", not ok)
            if not ok:
                res.violation({"status": f, "code": "none", "text": "quoted",
                               "problem": "connect-%s:%s" % (step, out[1] if out[0] == "exc"
                                                             else repr(out[1]))},
                              {"op": "connect", "fault_at": step, "outcome": repr(out)})
            if ok and sess.client.authenticated:
                res.violation({"status": f, "code": "none", "text": "quoted",
                               "problem": "authenticated-after-failed-connect"},
                              {"op": "connect", "fault_at": step})
    # emulated rename (server without VERSION): fault at each of the five steps
    for verb in ("LISTSCRIPTS", "GETSCRIPT", "PUTSCRIPT", "SETACTIVE", "DELETESCRIPT"):
        for f in ("NO", "BYE"):
            srv = ms.Server(users={b"user": b"pw"}, version=False, encodings="quoted",
                            scripts={b"old": b"keep;\r\n", b"other": b"stop;\r\n"},
                            active=b"old", faults={verb: [f]})
            sess, r = mslab.authed_session(srv)
            out = sess.call("renamescript", "old", "new")
            res.count("cases")
            res.count("status:" + f)
            res.case("rename/%s/%s" % (verb, f))
            if f == "BYE":
                ok = out[0] == "exc" and out[1] == "Error"
            else:
                ok = out in (("ret", False), ("ret", None)) or \
                    (out[0] == "exc" and out[1] == "Error")
            res.monitor("status-mirror", not ok)
            if not ok:
                res.violation({"status": f, "code": "none", "text": "quoted",
                               "problem": "emulated-rename-%s:%s" % (
                                   verb, out[1] if out[0] == "exc" else repr(out[1]))},
                              {"op": "renamescript(emulated)", "fault_at": verb,
                               "outcome": repr(out)})
    # no fault at all: every reply is OK, so the operation must report success - whatever
    # the script looks like (empty, one byte, no final newline)
    for body in (b"keep;\r\n", b"", b"x", b"\r\n", b"# only a comment"):
        for active in (b"old", None, b"other"):
            srv = ms.Server(users={b"user": b"pw"}, version=False, encodings="quoted",
                            scripts={b"old": body, b"other": b"stop;\r\n"}, active=active)
            srv.how_script = lambda: "literal"
            sess, r = mslab.authed_session(srv)
            out = sess.call("renamescript", "old", "new")
            res.count("cases")
            res.count("status:OK")
            res.case("rename/all-ok/%r/%r" % (body, active))
            ok = out == ("ret", True) and b"new" in srv.scripts and b"old" not in srv.scripts
            res.monitor("status-mirror", not ok)
            if not ok:
                res.violation({"status": "OK", "code": "none", "text": "quoted",
                               "problem": "emulated-rename-all-OK-but:%s" % (
                                   out[1] if out[0] == "exc" else repr(out[1]))},
                              {"op": "renamescript(emulated)", "body": body,
                               "active": active, "outcome": repr(out),
                               "commands": [c[1] for c in srv.commands]})
    res.sample({"workload": "multistep", "steps": ["greeting", "auth-verdict", "LISTSCRIPTS",
                                                   "GETSCRIPT", "PUTSCRIPT", "SETACTIVE",
                                                   "DELETESCRIPT"]}, 1)


def run_shard(tier, shard, res: Result):
    if shard["w"] == "multistep":
        run_multistep(res)
        return
    if shard["w"] == "random":
        run_random(shard, res)
        return
    cases = all_cases()
    s, e = shard["range"]
    for i in range(s, e):
        run_case(cases[i], res)
        if i % 211 == 0:
            c = cases[i]
            res.sample({"op": c[0], "reply": reply_bytes(c[1], c[3], c[5], c[6])}, 3)


def replay(witness, res: Result):
    from ..core import unjson_bytes
    if "reply" not in witness:
        print("multi-step case; witness:", witness)
        run_multistep(res)
        return
    op = witness["op"]
    reply = unjson_bytes(witness["reply"])
    srv = ms.Server(users={b"user": b"pw"})
    sess, r = mslab.authed_session(srv)
    srv.canned = [b'NO (PRIMER-CODE) "primer text"\r\n']
    sess.call("deletescript", "primer")
    srv.canned = [reply, b'OK "sentinel one"\r\n', b'NO (SENTINEL-7) "sentinel two"\r\n']
    args = BOOL_OPS.get(op) or DATA_OPS[op]
    out = sess.call(op, *args)
    s1 = sess.call("havespace", "s", 1)
    s2 = sess.call("deletescript", "s2")
    print("outcome:", out, "errcode:", sess.client.errcode, "errmsg:", sess.client.errmsg)
    print("sentinels:", s1, s2, "unread:", sess.unread())
    print("(compare with the expectation recorded in the witness:", witness.get("outcome"), ")")
