"""C08 — each client call puts exactly one well-formed command on the wire.

Monitor: everything passed to sendall() during one public call is parsed by R-MS's strict
RFC 5804 command parser; it must be exactly one command of the intended verb whose
arguments decode to the caller's values — or the call raised managesieve.Error and wrote
nothing.
"""
from __future__ import annotations

import random
import re

from .. import mslab, msmodel as ms, textgen
from ..core import Result, split

LEVEL = "exploration"
RULE = ("every script-management operation (havespace, listscripts, getscript, putscript, "
        "checkscript, deletescript, renamescript native, setactive, capability, logout) x "
        "names/contents from an alphabet of special fragments (double quote, backslash, CR, "
        "LF, CRLF, NUL, braces, {5} {5+} {3+}CRLFabc look-alikes, multi-byte text, empty, "
        "1000 bytes, injected second commands) composed 1-3 at a time, plus values of 511..2048 "
        "octets around the 1024-octet quoted/literal switch holding 0..1024 characters that "
        "need escaping or are multi-byte, and values equal to an earlier value of the same process "
        "or to one of its wire forms ({n+}CRLFvalue, {n}CRLFvalue, quoted-and-escaped), and script "
        "bodies sized so that the whole command is 65536 or 131072 -2..+2 octets, x sizes 0..2^63. "
        "Non-trivial = call with at least one argument; distinct = distinct (op, args).")
ASSUMPTIONS = [
    "strict parser in rv/msmodel.py (quoted strings with only \\\\ and \\\" escapes and no "
    "CR/LF/NUL, non-synchronising literals {n+}, unquoted decimal numbers, CRLF)",
    "the server answers OK to everything (C08 is about what is sent)",
    "a small stratum passes str values containing lone surrogates (not Unicode text, no "
    "UTF-8 encoding): the only demand there is a refusal (Error or UnicodeEncodeError) with "
    "nothing written",
]
FLOORS = {"quick": {"calls": 100000, "calls-with-special-values": 50000,
                    "calls-with-boundary-length-values": 3000,
                    "calls-sized-on-64KiB-multiples": 40, "calls-with-a-write-fault": 1500,
                    "calls-right-after-a-write-fault": 1200,
                    "connect-calls": 1000},
          "thorough": {"calls": 9000000, "calls-with-special-values": 4000000,
                       "calls-with-boundary-length-values": 100000,
                       "calls-sized-on-64KiB-multiples": 4000,
                       "calls-with-a-write-fault": 150000,
                       "calls-right-after-a-write-fault": 120000}}
SHARD_TIMEOUT = {"quick": 600, "thorough": 3000}

FRAGS = ["a", "script", "x y", '"', "\\", '\\"', "\r", "\n", "\r\n", "\x00", "{", "}", "{5}",
         "{5+}", "{3+}\r\nabc", "{0}", "{1+}\r\n", "é", "日本語", "\U0001F600", "",
         '" "other', '"\r\nDELETESCRIPT "victim"\r\n', "a" * 1000, "'", "(", "*", " ", "\t",
         "LOGOUT", "\r\nLOGOUT\r\n", "%s", "\\\\", "end\\"]
SURROGATES = ["\udcff", "\udc80", "\ud800", "a\udfffb", "\udcc3\udca9"]
SIZES = [0, 1, 1000, 2 ** 31, 2 ** 32, 2 ** 63, 2 ** 63 - 1, 42]


def plan(tier, seed):
    n = 120000 if tier == "quick" else 10000000
    k = 16 if tier == "quick" else 64
    return [{"w": "calls", "n": e - s, "rs": seed * 1000003 + i}
            for i, (s, e) in enumerate(split(n, k))]


def boundary_value(rng):
    """UTF-8 length around the 1024-octet switch from quoted string to literal, with a
    chosen number of characters that need escaping / are multi-byte (so that raw length,
    escaped length and character count fall on different sides of the limit)"""
    total = rng.choice([511, 512, 513, 600, 683, 1000, 1020, 1022, 1023, 1024, 1025, 1026,
                        1030, 2048])
    special = rng.choice(['"', "\\", '\\"', "é", '"é', "日"])
    k = rng.choice([0, 1, 2, 4, 12, 100, 300, 341, 512, 513, 600, 1024])
    out = ""
    while k > 0 and len((out + special).encode("utf-8")) <= total:
        out += special
        k -= 1
    pad = total - len(out.encode("utf-8"))
    pos = rng.choice(["front", "back", "middle"])
    if pos == "front":
        return "x" * pad + out
    if pos == "back":
        return out + "x" * pad
    return "x" * (pad // 2) + out + "x" * (pad - pad // 2)


RECENT = []


def echo_value(rng):
    """a value that equals an earlier value of this process, or one of the WIRE FORMS of an
    earlier value (what a cache keyed on the argument, or a reader of the client's own
    output, could confuse it with)"""
    v = rng.choice(RECENT)
    n = len(v.encode("utf-8", "surrogatepass"))
    form = rng.randrange(5)
    if form == 0:
        return v
    if form == 1:
        return "{%d+}\r\n%s" % (n, v)
    if form == 2:
        return "{%d}\r\n%s" % (n, v)
    if form == 3:
        return '"' + v.replace("\\", "\\\\").replace('"', '\\"') + '"'
    return v + "\r\n"


def value(rng):
    v = _value(rng)
    if len(v) < 200:
        RECENT.append(v)
        if len(RECENT) > 24:
            del RECENT[0]
    return v


def _value(rng):
    r = rng.random()
    if r < 0.04:
        return boundary_value(rng)
    if r < 0.12 and RECENT:
        return echo_value(rng)
    if r < 0.20:
        return textgen.text(rng, 1, 10)
    k = rng.choice([1, 1, 1, 2, 2, 3])
    v = "".join(rng.choice(FRAGS) for _ in range(k))
    if rng.random() < 0.02:
        v += rng.choice(SURROGATES)
    return v


def trigger_of(vals):
    t = set()
    for v in vals:
        if not isinstance(v, str):
            continue
        if '"' in v:
            t.add("dquote")
        if "\\" in v:
            t.add("backslash")
        if "\r" in v or "\n" in v:
            t.add("crlf")
        if "\x00" in v:
            t.add("nul")
        if re.match(r"\{\d+\+?\}", v):
            t.add("literal-lookalike")
        if len(v.encode("utf-8", "surrogatepass")) >= 500:
            t.add("long")
    return "+".join(sorted(t)) or "plain"


OPS = ["havespace", "listscripts", "getscript", "putscript", "checkscript", "deletescript",
       "renamescript", "setactive", "capability", "logout"]


def send_boundary_call(rng):
    """putscript / checkscript whose whole command (without the final CRLF) is k*65536 -2..+2
    octets long: a client that writes in blocks must still terminate the command"""
    target = rng.choice([65536, 131072]) + rng.choice([-2, -1, 0, 1, 2])
    op = rng.choice(["putscript", "checkscript"])
    name = rng.choice(["s", "x y", "é"])
    fill = rng.choice(["x", "é", "# l\r\n"])
    for n in range(target, 0, -1):
        body = (fill * (n // len(fill.encode("utf-8")) + 1)).encode("utf-8")[:n]
        try:
            body.decode("utf-8")
        except UnicodeDecodeError:
            continue
        head = (b'PUTSCRIPT "%s" ' % name.encode("utf-8") if op == "putscript"
                else b"CHECKSCRIPT ") + b"{%d+}\r\n" % len(body)
        if len(head) + len(body) == target:
            content = body.decode("utf-8")
            if op == "putscript":
                return op, (name, content), ("PUTSCRIPT", [("str", name), ("str", content)])
            return op, (content,), ("CHECKSCRIPT", [("str", content)])
        if len(head) + len(body) < target - 8:
            break
    return None


def make_call(rng):
    if rng.random() < 0.0008:
        c = send_boundary_call(rng)
        if c is not None:
            return c
    op = rng.choice(OPS)
    if op == "havespace":
        a = (value(rng), rng.choice(SIZES))
        exp = ("HAVESPACE", [("str", a[0]), ("num", a[1])])
    elif op in ("listscripts", "capability", "logout"):
        a = ()
        exp = (op.upper(), [])
    elif op in ("getscript", "deletescript", "setactive"):
        a = (value(rng),)
        exp = (op.upper(), [("str", a[0])])
    elif op == "putscript":
        a = (value(rng), value(rng) + rng.choice(["", "\r\n", "keep;\r\n"]))
        exp = ("PUTSCRIPT", [("str", a[0]), ("str", a[1])])
    elif op == "checkscript":
        a = (value(rng) + rng.choice(["", "keep;"]),)
        exp = ("CHECKSCRIPT", [("str", a[0])])
    else:
        a = (value(rng), value(rng))
        exp = ("RENAMESCRIPT", [("str", a[0]), ("str", a[1])])
    return op, a, exp


def has_surrogate(args):
    return any(isinstance(a, str) and any(0xD800 <= ord(ch) <= 0xDFFF for ch in a)
               for a in args)


def judge(op, args, exp, outcome, sent):
    """-> None or (defect, detail)"""
    if has_surrogate(args):
        # a str with a lone surrogate has no UTF-8 encoding: the value cannot be encoded,
        # the call has to refuse (Error, or the UnicodeEncodeError the unchanged tree
        # raises) having written nothing
        if outcome[0] == "exc" and outcome[1] in ("Error", "UnicodeEncodeError") and not sent:
            return None
        return ("unencodable-value-not-refused", "outcome %r sent %r" % (outcome[:2], sent[:80]))
    if outcome[0] == "exc":
        if outcome[1] == "Error" and not sent:
            return None  # refused before writing anything
        if outcome[1] == "Error":
            return ("error-after-writing", "raised Error after writing %r" % sent[:80])
        return ("exception:" + outcome[1], "%s (sent %r)" % (outcome[2], sent[:80]))
    if outcome[0] == "hang":
        return ("hang", outcome[1])
    cmds, left, issues = ms.parse_all(sent)
    if issues:
        cls = issues[0].split(":", 1)[1].strip() if ":" in issues[0] else issues[0]
        cls = re.sub(r"offset \d+.*|%r.*|b'.*", "", cls).strip()
        return ("malformed:" + cls[:50], "%r" % (issues[:2],))
    if left:
        return ("leftover-bytes", repr(left[:60]))
    if len(cmds) != 1:
        return ("command-count:%d" % len(cmds), repr([c[0] for c in cmds]))
    verb, got = cmds[0]
    if verb != exp[0]:
        return ("wrong-verb", "%s instead of %s" % (verb, exp[0]))
    want = exp[1]
    if len(got) != len(want):
        return ("argument-count", "%r" % (got,))
    for g, w in zip(got, want):
        if w[0] == "num":
            if g[0] != "num" or g[1] != w[1]:
                return ("number-argument", "%r want %r" % (g, w))
        else:
            if g[0] != "str" or g[1] != w[1].encode("utf-8"):
                return ("decoded-value-differs", "%r want %r" % (g[:2], w[1][:60]))
    return None


def run_connects(rng, res, n):
    """connect() is one call too: at most one STARTTLS and exactly one AUTHENTICATE exchange
    go out, whatever the server answers (a refused login is reported, not retried with the
    credentials under another mechanism)."""
    impl = ["DIGEST-MD5", "PLAIN", "LOGIN", "OAUTHBEARER"]
    for _ in range(n):
        sasl = rng.sample(impl, rng.randint(1, 4))
        verdict = rng.choice(["ok", "wrong-password", "NO", "BYE"])
        faults = {"auth-verdict": verdict} if verdict in ("NO", "BYE") else {}
        starttls = rng.random() < 0.3
        srv = ms.Server(users={b"user": b"pw" if verdict != "wrong-password" else b"other"},
                        sasl=sasl, faults=faults, starttls=True)
        sess = mslab.Session(srv)
        out = sess.call("connect", "user", "pw", starttls=starttls,
                        authmech=rng.choice([None, None, "X-UNKNOWN", rng.choice(sasl)]))
        attempts = [e for e in srv.log if e[0] == "auth-attempt"]
        ntls = sum(1 for c in srv.commands if c[1] == "STARTTLS")
        res.count("calls")
        res.count("connect-calls")
        res.case(repr(("connect", sasl, verdict, starttls, res.counters.get("connect-calls"))))
        bad = None
        if len(attempts) != 1:
            bad = ("authenticate-exchanges:%d" % len(attempts), repr([a[1] for a in attempts]))
        elif ntls != (1 if starttls else 0):
            bad = ("starttls-commands:%d" % ntls, "-")
        elif srv.violations:
            bad = ("malformed-during-connect", srv.violations[0][:80])
        elif verdict != "ok" and out == ("ret", True):
            bad = ("refused-login-reported-as-success", verdict)
        res.monitor("one-wellformed-command", bad is not None)
        if bad:
            res.violation({"defect": bad[0], "trigger": "connect:" + verdict},
                          {"op": "connect", "announced": sasl, "server_verdict": verdict,
                           "starttls": starttls, "outcome": repr(out)[:100],
                           "sent": sess.wire.sent()[:300], "detail": bad[1]})


def run_shard(tier, shard, res: Result):
    rng = random.Random(shard["rs"])
    run_connects(random.Random(shard["rs"] + 1), res, max(50, shard["n"] // 100))
    sess = None
    for i in range(shard["n"]):
        op, args, exp = make_call(rng)
        if sess is None:
            srv = ms.Server(users={b"user": b"pw"})
            sess, r = mslab.authed_session(srv)
            if r != ("ret", True):
                res.inconclusive.append("could not authenticate: %r" % (r,))
                return
            srv.canned = []
        rep = {"getscript": b'{5}\r\nkeep;\r\nOK "done"\r\n',
               "listscripts": b'"a" ACTIVE\r\n"b"\r\nOK "done"\r\n',
               "capability": b'"IMPLEMENTATION" "x"\r\nOK "done"\r\n'}.get(op, b'OK "done"\r\n')
        sess.server.canned = [rep] + [b'OK "done"\r\n'] * 3
        mark = sess.wire.mark()
        out = sess.call(op, *args)
        sent = sess.wire.sent_since(mark)
        if args and out[0] == "ret" and len(sent) > 8 and not has_surrogate(args) \
                and rng.random() < 0.04:
            # the same call once more on a fresh connection whose first write times out after
            # k octets: the call must fail, and what left is a prefix of the one command
            srv2 = ms.Server(users={b"user": b"pw"})
            s2, r2 = mslab.authed_session(srv2)
            if r2 == ("ret", True):
                srv2.canned = [rep] + [b'OK "done"\r\n'] * 3
                k = rng.randrange(1, len(sent))
                s2.sock.send_fault = (k, rng.choice(["timeout", "SSLError"]))
                m2 = s2.wire.mark()
                out2 = s2.call(op, *args)
                sent2 = s2.wire.sent_since(m2)
                res.count("calls-with-a-write-fault")
                badw = None
                if out2[0] != "exc":
                    badw = ("write-fault-not-reported", "returned %r" % (out2[1:2],))
                elif not sent.startswith(sent2):
                    badw = ("bytes-after-a-write-fault", "wire holds more than a prefix of the command")
                if badw is None:
                    # the next, ordinary call on the same client writes its own command and
                    # nothing left over from the one that failed
                    m3 = s2.wire.mark()
                    s2.call("deletescript", "after")
                    sent3 = s2.wire.sent_since(m3)
                    res.count("calls-right-after-a-write-fault")
                    if sent3 != b'DELETESCRIPT "after"\r\n':
                        badw = ("call-after-a-write-fault-writes-something-else",
                                "wrote %r" % sent3[:200])
                res.monitor("write-fault", badw is not None)
                if badw:
                    res.violation({"defect": badw[0], "trigger": "write-fault"},
                                  {"op": op, "args": [a if not isinstance(a, str) else a[:80] for a in args],
                                   "fault_after_octets": k, "sent": sent2[:300],
                                   "without_fault": sent[:300], "outcome": repr(out2)[:200],
                                   "detail": badw[1]})
        res.count("calls")
        trig = trigger_of(args)
        if trig != "plain":
            res.count("calls-with-special-values")
        if any(isinstance(a, str) and 1000 <= len(a.encode("utf-8", "surrogatepass")) <= 1030
               for a in args):
            res.count("calls-with-boundary-length-values")
        if len(sent) > 65000:
            res.count("calls-sized-on-64KiB-multiples")
            res.observe("sent-sizes-mod-65536", str((len(sent) - 2) % 65536))
        res.observe("triggers", trig)
        res.observe("ops", op)
        res.case(repr((op, args)), nontrivial=bool(args))
        if has_surrogate(args):
            res.count("calls-with-lone-surrogates")
        bad = judge(op, args, exp, out, sent)
        res.monitor("one-wellformed-command", bad is not None)
        if bad:
            res.violation({"defect": bad[0], "trigger": trig},
                          {"op": op, "args": list(args), "sent": sent[:300],
                           "outcome": repr(out)[:200], "detail": bad[1]})
        # fresh session whenever the stream may be out of step
        if bad or op == "logout" or out[0] != "ret" or sess.server.out or \
                sess.unread()[1]:
            sess = None
        if i % 2003 == 0:
            res.sample({"op": op, "args": [a if not isinstance(a, str) else a[:60]
                                           for a in args], "sent": sent[:120]}, 3)


def replay(witness, res: Result):
    op, args = witness["op"], list(witness["args"])
    exp_verbs = {"havespace": "HAVESPACE", "getscript": "GETSCRIPT", "deletescript": "DELETESCRIPT",
                 "setactive": "SETACTIVE", "putscript": "PUTSCRIPT", "checkscript": "CHECKSCRIPT",
                 "renamescript": "RENAMESCRIPT"}
    exp = (exp_verbs.get(op, op.upper()),
           [("num", a) if isinstance(a, int) else ("str", a) for a in args])
    srv = ms.Server(users={b"user": b"pw"})
    sess, r = mslab.authed_session(srv)
    srv.canned = [b'{5}\r\nkeep;\r\nOK "done"\r\n' if op == "getscript" else b'OK "done"\r\n'] * 3
    mark = sess.wire.mark()
    out = sess.call(op, *args)
    sent = sess.wire.sent_since(mark)
    print("sent:", sent[:300], "outcome:", out)
    bad = judge(op, tuple(args), exp, out, sent)
    if bad:
        res.violation({"defect": bad[0], "trigger": trigger_of(args)}, {"op": op, "sent": sent[:300]})
