"""C04 — print/parse round trip.

For every accepted script: tosieve() raises nothing; its text is accepted;
tree(text) == tree(source) with string values compared by decoded content;
serialising the second tree reproduces the text (fixed point); and, independent of
sievelib's own parser, R-SIEVE's generic tree of the text == R-SIEVE's tree of the source.
"""
from __future__ import annotations

from .. import pwork, rsieve, gen
from ..core import Result, guarded, split
from .. import parserlab as lab

LEVEL = "exploration"
RULE = ("accepted scripts from W-TOK (V_full<=3 with preamble, V_small<=4), W-GEN with the "
        "quoting-biased value generator (escaped quote at end, backslashes, brackets, commas, "
        "newlines, non-ASCII, multi-line text: blocks incl. dot-stuffing and nested blocks), "
        "every command x every tag subset / capped order in 4 contexts, LF and CRLF layouts. "
        "Non-trivial = accepted script with at least one string or list value; distinct = "
        "distinct input byte strings.")
ASSUMPTIONS = [
    "R-SIEVE lexer/generic parser and its string decoding (RFC 5228 unescaping, "
    "dot-unstuffing, CRLF==LF) are trusted",
    "an empty block and no block are not distinguished",
    "tagged arguments are compared as a set of (tag, parameter) groups: the serializer "
    "may emit optional tags in a different order (tagged arguments are unordered in Sieve)",
]
FLOORS = {
    "quick": {"roundtrips": 5000, "with-strings": 4000, "with-multiline": 200,
              "with-hostile-quoting": 500, "serialisations-into-a-chunk-list": 100,
              "roundtrips-reparsed-by-the-parser-that-parsed-the-source": 1500,
              "roundtrips-after-the-tree-was-read-through-its-getters": 5000},
    "thorough": {"roundtrips": 150000, "with-strings": 100000, "with-multiline": 5000,
                 "with-hostile-quoting": 10000,
                 "roundtrips-reparsed-by-the-parser-that-parsed-the-source": 40000,
                 "roundtrips-after-the-tree-was-read-through-its-getters": 60000},
}
SHARD_TIMEOUT = {"quick": 600, "thorough": 3000}


def plan(tier, seed):
    shards = pwork.plan(tier, seed, want=("gen", "uses", "meta", "long", "mut"),
                        scale=2.0 if tier == "quick" else 3.0)
    for s in shards:
        if s["w"] == "gen":
            s["repeat"] = 0.08  # some commands fill one optional tag slot twice
    for L in (1, 2, 3):
        shards += pwork.plan_tok("full", L, 1, 8 if L == 3 else 1)
    for L in (2, 3, 4):
        shards += pwork.plan_tok("small", L, 0, 2)
    return shards


def _has_str(nf):
    for c in nf:
        for leaf in lab.leaves(c, []):
            if leaf[0] == "str":
                return True
    return False


def evaluate(data, same_parser=False):
    """same_parser: the printed script is parsed again by the very Parser object that parsed
    the source (load - print - load on one object), not by a fresh one"""
    o = lab.parse(data)
    if o.verdict() is not True:
        return None, []
    out = []
    info = {"mls": b"text:" in data, "hostile": b'\\"' in data or b"\\\\" in data,
            "same_parser": same_parser}
    try:
        nf0 = _canon(lab.nf_result(o.result, decoded=True))
    except RecursionError:
        return None, []
    info["strings"] = _has_str(nf0)
    if same_parser or len(data) % 2:
        # a caller inspects the tree through its public getters before printing it: reading
        # changes nothing (nf0 above was taken before, the printout below comes after)
        info["getter_calls"] = lab.read_through_getters(o.result)
    kind, t1, _ = guarded(lab.serialise, 200000 + 4000 * len(data), o.result)
    if kind != "ret":
        exc = t1[0] if kind == "exc" else "hang"
        frame = t1[2] if kind == "exc" else "-"
        return info, [({"step": "tosieve-raised", "exc": exc, "frame": frame},
                       "tosieve: %r" % (t1,))]
    b1 = t1.encode("utf-8", "surrogatepass")
    o1 = lab.parse(b1, parser=o.parser if same_parser else None)
    if o1.verdict() is not True:
        return info, [({"step": "output-rejected",
                        "error": lab.error_class(o1.error) if o1.verdict() is False
                        else str(o1.verdict())},
                       "output %r -> %r" % (t1[:300], o1.error or o1.exc))]
    nf1 = _canon(lab.nf_result(o1.result, decoded=True))
    if nf1 != nf0:
        out.append(({"step": "tree-changed", "where": _where(nf0, nf1)},
                    "%s | output %r" % (lab.first_diff(nf0, nf1), t1[:300])))
    kind, t2, _ = guarded(lab.serialise, 200000 + 4000 * len(b1), o1.result)
    if kind != "ret" or t2 != t1:
        out.append(({"step": "not-a-fixed-point"},
                    "t1=%r t2=%r" % (t1[:200], t2[:200] if kind == "ret" else t2)))
    # independent cross-parse with R-SIEVE
    ls, l1 = rsieve.lex(data), rsieve.lex(b1)
    if not ls.error and not ls.unspec:
        try:
            gs = rsieve.parse_generic(ls.toks)
        except (rsieve.GrammarError, RecursionError):
            gs = None
        if gs is not None:
            sem = rsieve._Sem(ls.toks)
            try:
                sem.block(gs, True)
            except RecursionError:
                pass
            if "repeated-tag-slot" in sem.unspec:
                # the source fills one optional tag slot twice: the parser keeps one of them
                # (outside the claim of C01/C03), so the source's generic tree is no
                # reference for what the serializer was given
                gs = None
        if gs is not None:
            g1 = None
            if not l1.error:
                try:
                    g1 = rsieve.parse_generic(l1.toks)
                except (rsieve.GrammarError, RecursionError):
                    g1 = None
            if g1 is None:
                out.append(({"step": "output-not-generic-sieve"},
                            "R-SIEVE cannot parse output %r" % t1[:300]))
            else:
                a = _canon(tuple(lab.norm_generic(x)
                                 for x in rsieve.nf_script(gs, decoded=True)))
                b = _canon(tuple(lab.norm_generic(x)
                                 for x in rsieve.nf_script(g1, decoded=True)))
                if a != b:
                    out.append(({"step": "reference-tree-changed", "where": _where(a, b)},
                                "%s | output %r" % (lab.first_diff(a, b), t1[:300])))
    return info, out


def _canon(nfs):
    return tuple(rsieve.canon_nf(x) for x in nfs)


def _where(a, b):
    from .c03 import _diff_class
    return _diff_class(a, b)


SAME = {"n": 0}


def check_case(label, data, info, res: Result):
    SAME["n"] += 1
    same = label != "tok" and SAME["n"] % 3 == 0
    meta, viols = evaluate(data, same)
    if meta is None:
        res.case(data, nontrivial=False)
        return
    res.count("roundtrips")
    if same:
        res.count("roundtrips-reparsed-by-the-parser-that-parsed-the-source")
    if meta.get("getter_calls"):
        res.count("roundtrips-after-the-tree-was-read-through-its-getters")
    if meta["strings"]:
        res.count("with-strings")
    if meta["mls"]:
        res.count("with-multiline")
    if meta["hostile"]:
        res.count("with-hostile-quoting")
    res.case(data, nontrivial=meta["strings"])
    res.monitor("roundtrip-contract", bool(viols))
    if lab.SERIALISE["sink-differs"]:
        for out, sunk, leaked in lab.SERIALISE["sink-differs"][:1]:
            res.violation({"step": "output-depends-on-the-kind-of-writer"},
                          {"input": data, "into_StringIO": out, "into_chunk_list": sunk,
                           "leaked_to_stdout": leaked})
        del lab.SERIALISE["sink-differs"][:]
    res.counters["serialisations-into-a-chunk-list"] = lab.SERIALISE["n"] // 4
    for sig, detail in viols:
        wdata = data
        if res.is_new_sig(sig) and info.get("toks") and label in ("gen", "uses", "meta-base"):
            from ..core import minimise

            def pred(t):
                r = evaluate(gen.join_tokens(t), same)[1]
                return any(v[0] == sig for v in r)
            small = minimise(info["toks"], pred)
            cand = gen.join_tokens(small)
            r2 = evaluate(cand, same)[1]
            if any(v[0] == sig for v in r2):
                wdata = cand
                detail = [v[1] for v in r2 if v[0] == sig][0]
        res.violation(sig, {"input": wdata, "label": label, "detail": detail,
                            "output_reparsed_by_the_same_parser_object": same})


def run_shard(tier, shard, res: Result):
    n = 0
    for label, data, info in pwork.cases(shard):
        check_case(label, data, info, res)
        n += 1
        if shard["w"] != "tok" and n % 97 == 1:
            res.sample({"workload": label, "input": data}, cap=3)


def replay(witness, res: Result):
    from ..core import unjson_bytes
    if witness.get("output_reparsed_by_the_same_parser_object"):
        SAME["n"] = 2  # the next case re-parses on the same Parser object
    check_case("replay", unjson_bytes(witness["input"]), {}, res)
