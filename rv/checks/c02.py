"""C02 — parsing always terminates with a verdict: no exception, no hang,
error/error_pos/result well-formed, cost linear in the input.

Monitors: contracts on the real Parser.parse (M-CONTRACT), logical step budget
(M-STEP), lexer progress (M-LEX), doubling experiments on line events and CPU
time (M-CPU, 3-fold confirmation).
"""
from __future__ import annotations

import contextlib
import os
import random
import tempfile
import time

from .. import contracts, gen, pwork
from .. import core
from ..core import Result, split, guarded, STEPS
from .. import parserlab as lab

LEVEL = "exploration"
RULE = ("W-TOK token sequences (quick: V_full<=2 with/without preamble, V_small<=4; "
        "thorough: V_full<=3, V_small<=5); W-BYTES byte mutants of generated valid scripts "
        "(flip/insert/delete/replace from a hostile byte set, truncation at every offset, "
        "splices), each also as str and through parse_file for a sample; identifiers equal "
        "to every global name of sievelib.commands found at run time; every command name "
        "followed by each of 49 odd tokens (text: blocks with bare-CR line breaks, NUL / "
        "invalid UTF-8 / lone CR in strings, malformed lists, stray brackets) in 6 templates; W-LONG (one dimension "
        "of an ordinary script at 255..259, 1023..1025, 4095..4097, 65535/6 items or octets, "
        "numbers of 9..20000 digits) through parse(bytes), parse(str) and parse_file; W-SCALE doubling "
        "families. Non-trivial = non-empty input; distinct = distinct input byte strings "
        "(plus distinct (family,size) for scaling).")
ASSUMPTIONS = [
    "a hang is decided by a logical budget of 20000+3000*len(input) sievelib line events, "
    "never by wall clock",
    "super-linear cost: line events E(8N)/E(N) <= 12 (deterministic); CPU time ratio <= 24 "
    "only when t(N) >= 5 ms and confirmed in 3 consecutive re-measurements",
    "inputs are bytes, or str that is valid Unicode text (no lone surrogates)",
]
FLOORS = {
    "quick": {"monitor:parse.verdict_is_exactly_bool": 200000, "scale:families": 33,
              "bytes:mutants": 100000, "via:str": 1000, "via:file": 200, "long:cases": 400,
              "via:bytearray": 2000, "via:debug": 2000, "oddargs:cases": 15000,
              "via:used": 8000},
    "thorough": {"monitor:parse.verdict_is_exactly_bool": 3000000, "scale:families": 33,
                 "bytes:mutants": 2000000, "via:str": 10000, "via:file": 1000,
                 "long:cases": 400, "oddargs:cases": 15000, "via:bytearray": 20000,
                 "via:debug": 20000, "via:used": 150000},
}
SHARD_TIMEOUT = {"quick": 600, "thorough": 3000}


def plan(tier, seed):
    shards = []
    if tier == "quick":
        for L in (0, 1, 2):
            for pre in (0, 1):
                shards += pwork.plan_tok("full", L, pre, 1)
        for L in (3, 4):
            shards += pwork.plan_tok("small", L, 0, 4)
        nmut, k = 240000, 16
        ntrunc = 200
    else:
        for L in (0, 1, 2):
            for pre in (0, 1):
                shards += pwork.plan_tok("full", L, pre, 1)
        for pre in (0, 1):
            shards += pwork.plan_tok("full", 3, pre, 8)
        for L in (3, 4):
            shards += pwork.plan_tok("small", L, 0, 4)
        shards += pwork.plan_tok("small", 5, 0, 16)
        nmut, k = 5000000, 64
        ntrunc = 2000
    for i, (s, e) in enumerate(split(nmut, k)):
        shards.append({"w": "bytes", "n": e - s, "rs": seed * 1000003 + i})
    for i, (s, e) in enumerate(split(ntrunc, 16)):
        shards.append({"w": "trunc", "n": e - s, "rs": seed * 7919 + i})
    shards.append({"w": "names", "rs": seed})
    names = sorted(gen.SPEC) + ["foobar"]
    for i, (s_, e_) in enumerate(split(len(names), 4)):
        shards.append({"w": "oddargs", "names": names[s_:e_]})
    shards += pwork.plan_long(tier, seed)
    if tier == "thorough":
        for i in range(16):
            shards.append({"w": "atheris", "seconds": 60, "rs": seed * 131 + i})
    fams = sorted(gen.scale_families())
    for i, (s, e) in enumerate(split(len(fams), 6)):
        shards.append({"w": "scale", "families": fams[s:e],
                       "n0": 1500 if tier == "quick" else 4000})
    return shards


# ---------------------------------------------------------------------------
USEDP = {"p": None, "prev": None}


def observe(data, res: Result, label, via="bytes", path=None):
    """One monitored execution; reports every monitor firing."""
    contracts.lex_reset()
    if via == "str":
        arg = data.decode("utf-8", "replace")
        o = lab.parse(arg)
        nbytes = len(arg.encode("utf-8"))
    elif via == "file":
        o = lab.parse(data, via_file=path)
        nbytes = len(data)
    elif via == "bytearray":
        # a mutable byte string (what socket.recv_into / file.readinto hand out)
        o = lab.parse(bytearray(data))
        nbytes = len(data)
    elif via == "debug":
        # Parser(debug=True): traces go to stdout, the contract on the call is the same
        with contextlib.redirect_stdout(_Sink()):
            o = lab.parse(data, parser=lab.sl_parser.Parser(debug=True))
        nbytes = len(data)
    elif via == "used":
        # one long-lived Parser object takes a whole stream of inputs, whatever the earlier
        # ones left behind (a failure half-way through a list, an open block, a lexer error)
        if USEDP["p"] is None:
            USEDP["p"] = lab.sl_parser.Parser()
        prev = USEDP["prev"]
        o = lab.parse(data, parser=USEDP["p"])
        USEDP["prev"] = data
        nbytes = len(data)
        if o.kind != "ret":
            USEDP["p"] = None  # whatever broke it: start the next stream afresh
    else:
        o = lab.parse(data)
        nbytes = len(data)
    res.count("via:" + via)
    res.count("outcome:%s" % o.verdict())
    wit = {"input": data, "via": via, "label": label}
    if via == "used":
        wit["previous_input_on_the_same_parser"] = prev
    if o.kind == "exc":
        res.violation({"kind": "exception", "type": o.exc[0], "frame": o.exc[2]},
                      dict(wit, message=o.exc[1]))
    elif o.kind == "hang":
        res.violation({"kind": "hang"}, dict(wit, detail=o.exc, steps=o.steps))
    elif o.kind == "slow":
        # two consecutive calls already ran into the per-call alarm (parserlab); a third
        # confirmation makes it a verdict: no linear-time behaviour needs 3 x 8 s for this
        o3 = lab.parse(data if via != "str" else data.decode("utf-8", "replace"))  # bytes again
        if o3.kind == "slow" and via != "debug":
            res.violation({"kind": "cpu-blowup", "size-class": "<=%d" % (
                1 << max(6, len(data).bit_length()))},
                dict(wit, detail="no verdict within %.0f s in 4 consecutive attempts "
                     "(%d line events only: time is spent inside one statement)" % (
                         core.ALARM_SECONDS, o.steps)))
            raise StopShard()
        res.inconclusive.append("slow parse not reproducible for %r" % data[:60])
    for name, detail in contracts.take_fired():
        res.violation({"kind": "contract", "which": name,
                       "detail": detail.split(" ")[0]}, dict(wit, detail=detail))
    res.monitor("lexer-progress", False)
    if o.kind != "hang" and contracts.LEX["tokens"] > 2 * nbytes + 2:
        res.monitors["lexer-progress"][1] += 1
        res.violation({"kind": "lexer-progress"},
                      dict(wit, tokens=contracts.LEX["tokens"], nbytes=nbytes))
    return o


class _Sink:
    def write(self, s):
        return len(s)

    def flush(self):
        pass


class StopShard(Exception):
    """A confirmed blow-up decides the shard; every further offending input would only
    burn the budget."""


def run_shard(tier, shard, res: Result):
    try:
        _run_shard(tier, shard, res)
    except StopShard:
        res.count("shards-stopped-after-confirmed-blowup")


def _run_shard(tier, shard, res: Result):
    contracts.install_parser_contracts()
    res.observe("contract-engine", "icontract" if contracts.HAVE_ICONTRACT else "builtin")
    w = shard["w"]
    if w == "tok":
        n = 0
        for label, data, info in pwork.cases(shard):
            o = observe(data, res, label)
            res.case(data, nontrivial=bool(data))
            n += 1
            if n % 50021 == 1:
                res.sample({"workload": "tok", "input": data, "outcome": str(o.verdict())}, 2)
    elif w == "long":
        run_long(shard, res)
    elif w == "oddargs":
        run_oddargs(shard, res)
    elif w == "bytes":
        run_bytes(shard, res)
    elif w == "trunc":
        run_trunc(shard, res)
    elif w == "names":
        run_names(shard, res)
    elif w == "scale":
        run_scale(shard, res)
    elif w == "atheris":
        run_atheris(shard, res)
    for k, v in contracts.EVALS.items():
        res.monitors.setdefault(k, [0, 0])
        res.monitors[k][0] = v
    for sig_key in list(res.viol_counts):
        if '"contract"' in sig_key:
            import json
            which = json.loads(sig_key)["which"]
            res.monitors.setdefault(which, [0, 0])
            res.monitors[which][1] += res.viol_counts[sig_key]


FIXED_SEEDS = [
    b'require ["fileinto", "imap4flags"];\nif hasflag "a" {\n  fileinto "x";\n}\n',
    b'require "reject";\nreject text:\nline \xc3\xa9\n..dot\n.\n;\n',
    b'# comment \xc3\xa9\xc3\xa9\n/* block\n comment */\nif anyof (true, not false) { keep; }\n',
    b'require ["vacation"]; vacation :days 7 :subject "s\\"q" :addresses ["a","b"] "r";',
    b'if header :comparator "i;octet" :contains ["a","b"] "c" { stop; } elsif size :over 1K {} else { discard; }',
    b'require "imap4flags"; if anyof (hasflag :is "a", hasflag ["x"] ["y"]) { setflag "f" ["\\\\Seen"]; }',
    b'', b';', b'"', b'text:', b'/*', b'#', b'\xef\xbb\xbfkeep;',
]


def _corpus(rng, n):
    g = gen.ScriptGen(rng, maxdepth=3)
    out = list(FIXED_SEEDS)
    while len(out) < n:
        toks, _ = g.script()
        out.append(gen.render(toks, rng.choice(["compact", "lines"]),
                              rng.choice([b"\n", b"\n", b"\r\n"])))
    return out


def run_bytes(shard, res):
    rng = random.Random(shard["rs"])
    corpus = _corpus(rng, 60)
    tmp = tempfile.NamedTemporaryFile(prefix="rv-c02-", suffix=".sieve", delete=False)
    tmp.close()
    try:
        done = 0
        per = max(1, shard["n"] // len(corpus))
        for seed in corpus:
            for m in gen.byte_mutants(seed, rng, per):
                r = rng.random()
                via = "bytes"
                if r < 0.04:
                    via = "str"
                elif r > 0.98:
                    via = "debug"
                elif r > 0.96:
                    via = "bytearray"
                elif r > 0.86:
                    via = "used"
                elif r < 0.045:
                    via = "file"
                    with open(tmp.name, "wb") as f:
                        f.write(m)
                o = observe(m, res, "bytes", via, tmp.name)
                res.case(m, nontrivial=bool(m))
                res.count("bytes:mutants")
                try:
                    m.decode("utf-8")
                except UnicodeDecodeError:
                    res.count("bytes:invalid-utf8")
                done += 1
                if done % 20011 == 1:
                    res.sample({"workload": "bytes", "input": m, "via": via,
                                "outcome": str(o.verdict())}, 2)
        # special files: empty, BOM, no trailing newline
        for content in (b"", b"\xef\xbb\xbfkeep;\n", b"keep;", b"keep;\r\n", b"\n\n"):
            with open(tmp.name, "wb") as f:
                f.write(content)
            observe(content, res, "file-special", "file", tmp.name)
            res.case(b"file:" + content)
    finally:
        os.unlink(tmp.name)


ODD_TOKENS = [b"text:\r.", b"text:\rX\r.", b"text:\r\n.", b"text:\n.", b"text:\nX\n.", b"text:",
              b"text:\n", b'"a\x00b"', b'"a\rb"', b'"\xff"', b'"\xc3"', b'""', b'"\\\\"', b'"\\"',
              b'"', b":" + b"t" * 300, b":", b":9", b"1" * 30, b"1KK", b"0x10", b"-1", b"1.5",
              b"[", b"[]", b'["a",]', b'["a" "b"]', b'[["a"]]', b"(", b"()", b"(true,)", b"{",
              b"}", b",", b";", b"/*", b"*/", b"#", b"\\", b"@", b"\x00", b"\xef\xbb\xbf",
              b"\xe2\x80\xa8", b"true", b"not", b"foobar", b"text:\xc3\xa9\n.",
              b'"\xed\xb3\xbf"', b"text:\n\xff\n."]


def run_oddargs(shard, res):
    """every command name followed by one odd token (and by a normal argument, then the odd
    token), as a command and as a test: the error paths that quote or measure the token"""
    for nm in shard["names"]:
        for variant in (nm, nm.upper()):
            for t in ODD_TOKENS:
                for tmpl in (b"%s %s;", b"%s %s\n;", b"if %s %s {}", b'%s "a" %s;',
                             b"if %s :is %s {}", b"if anyof (%s %s) {}"):
                    data = gen.ALL_EXT_PREAMBLE + b" " + tmpl % (variant.encode(), t)
                    observe(data, res, "oddargs")
                    res.case(data)
                    res.count("oddargs:cases")
    res.observe("oddargs:tokens", str(len(ODD_TOKENS)))


def run_long(shard, res):
    """W-LONG: one dimension at a numeric boundary, through all three entry points."""
    tmp = tempfile.NamedTemporaryFile(prefix="rv-c02-", suffix=".sieve", delete=False)
    tmp.close()
    try:
        for label, data, info in pwork.cases(shard):
            for via in ("bytes", "str", "file", "debug", "bytearray"):
                if via == "file":
                    with open(tmp.name, "wb") as f:
                        f.write(data)
                o = observe(data, res, "long:" + info["family"], via, tmp.name)
            res.case(data)
            res.count("long:cases")
            res.observe("long:families", info["family"])
            res.observe("long:sizes", str(info["n"]))
    finally:
        os.unlink(tmp.name)


def run_trunc(shard, res):
    rng = random.Random(shard["rs"])
    corpus = [c for c in _corpus(rng, 6 * shard["n"] + len(FIXED_SEEDS))[len(FIXED_SEEDS):]
              if len(c) <= 360][:shard["n"]] + FIXED_SEEDS[:6]
    for s in corpus:
        for cut in range(len(s) + 1):
            t = s[:cut]
            o = observe(t, res, "trunc")
            res.case(t, nontrivial=bool(t))
            res.count("bytes:truncations")
    res.sample({"workload": "trunc", "input": corpus[0][:len(corpus[0]) // 2]}, 1)


def run_names(shard, res):
    from sievelib import commands as slc
    names = set()
    for k in dir(slc):
        names.add(k)
        if k.endswith("Command"):
            names.add(k[:-7])
    import builtins
    names.update(["command", "control", "action", "test", "unknown", "badargument",
                  "error", "object", "type", "__class__", "_", "Command"])
    n = 0
    for nm in sorted(names):
        if not nm or not (nm[0].isalpha() or nm[0] == "_") or not nm.replace("_", "a").isalnum():
            continue
        for variant in {nm, nm.lower(), nm.upper(), nm.capitalize()}:
            for tmpl in (b"%s;", b"if %s {}", b'%s "a";', b'if %s "a" {}', b"%s {}",
                         b"if not %s {}", b"if anyof (%s) {}", b'%s :is 1 ["a"] true;',
                         b"keep; %s"):
                data = tmpl % variant.encode()
                observe(data, res, "names")
                res.case(data)
                res.count("names:cases")
                n += 1
    res.observe("names:identifiers-from-introspection", str(len(names)))
    res.sample({"workload": "names", "identifiers": sorted(names)[:12]}, 1)


def _measure(data):
    t0 = time.process_time()
    kind, val, steps = guarded(lab.sl_parser.Parser().parse, 50_000_000 + 4000 * len(data), data)
    return kind, steps, time.process_time() - t0


def run_scale(shard, res):
    fams = gen.scale_families()
    n0 = shard["n0"]
    for name in shard["families"]:
        f = fams[name]
        sizes = [n0, 2 * n0, 4 * n0, 8 * n0]
        steps, cpu = [], []
        bad = None
        for n in sizes:
            data = f(n)
            o = observe(data, res, "scale:" + name)
            res.case("scale:%s:%d" % (name, n))
            kind, st, t = _measure(data)
            if kind == "hang":
                bad = "hang"
                break
            steps.append(st)
            cpu.append(t)
        res.count("scale:families")
        if bad:
            continue
        res.monitor("scaling:line-events", False)
        ratio = steps[3] / max(1, steps[0])
        res.observe("scale:event-ratio", "%s=%.1f" % (name, ratio))
        if ratio > 12:
            res.monitors["scaling:line-events"][1] += 1
            res.violation({"kind": "superlinear", "metric": "line-events", "family": name},
                          {"sizes": sizes, "line_events": steps})
        res.monitor("scaling:cpu", False)
        if cpu[0] >= 0.005 or cpu[3] >= 0.5:
            r = cpu[3] / max(cpu[0], 1e-4)
            res.observe("scale:cpu-ratio", "%s=%.1f" % (name, r))
            if r > 24:
                # one timing decides nothing: repeat both ends and compare the MINIMA (the
                # estimator that other load on the machine cannot inflate).  Code that is
                # super-linear shows it in the minima as well; a single slow run does not
                a = min(_measure(f(sizes[0]))[2] for _ in range(5))
                b = min(_measure(f(sizes[3]))[2] for _ in range(5))
                r2 = b / max(a, 1e-4)
                if r2 > 24:
                    res.monitors["scaling:cpu"][1] += 1
                    res.violation({"kind": "superlinear", "metric": "cpu", "family": name},
                                  {"sizes": sizes, "cpu_s": cpu, "min_of_5_cpu_s": [a, b]})
                else:
                    res.count("scale:cpu-outliers-not-confirmed-by-minimum-of-5")
                    res.observe("scale:cpu-outliers", "%s first=%.1f min-of-5=%.1f" % (name, r, r2))
    res.sample({"workload": "scale", "families": shard["families"], "sizes": [n0, 8 * n0]}, 1)


def run_atheris(shard, res):
    """Coverage-guided mutation (libFuzzer via atheris) as a workload generator; the
    subprocess applies the same monitors and hands back its Result."""
    import json
    import subprocess
    import sys
    from .. import core
    d = tempfile.mkdtemp(prefix="rv-atheris-")
    out = os.path.join(d, "out.json")
    try:
        try:
            p = subprocess.run([sys.executable, "-m", "rv.fuzz_c02", out,
                                str(shard["seconds"]), str(shard["rs"])],
                               cwd=core.VERIF_DIR, timeout=shard["seconds"] + 240,
                               stdout=subprocess.PIPE, stderr=subprocess.PIPE)
        except subprocess.TimeoutExpired:
            res.inconclusive.append("atheris worker exceeded its wall-clock watchdog")
            return
        if not os.path.exists(out):
            res.observe("atheris", "unavailable")
            res.count("bytes:atheris-unavailable")
            return
        r = json.load(open(out))
        res.evaluations += r["evaluations"]
        for h in r["hashes"]:
            if len(res.hashes) < res.MAX_HASHES:
                res.hashes.add(h)
        for k, v in r["counters"].items():
            res.count(k, v)
        for v in r["violations"]:
            res.violation(v["sig"], v["witness"])
        for k, v in r["viol_counts"].items():
            res.viol_counts[k] = max(res.viol_counts.get(k, 0), v)
        res.observe("atheris", "ran")
        res.sample({"workload": "atheris", "executions": r["evaluations"]}, 1)
    finally:
        import shutil
        shutil.rmtree(d, ignore_errors=True)


def replay(witness, res: Result):
    from ..core import unjson_bytes
    contracts.install_parser_contracts()
    if "input" in witness and witness.get("via") == "used":
        USEDP["p"] = None
        if witness.get("previous_input_on_the_same_parser") is not None:
            observe(unjson_bytes(witness["previous_input_on_the_same_parser"]), Result(),
                    "replay-previous", "used")
        observe(unjson_bytes(witness["input"]), res, "replay", "used")
    elif "input" in witness:
        observe(unjson_bytes(witness["input"]), res, "replay", witness.get("via", "bytes")
                if witness.get("via") != "file" else "bytes")
