"""C07 — extension use is gated by require.

Accept direction: independent pre-order walk over every accepted tree with a frozen
construct->extension table; every extension-bound command / tag / match type must be
preceded by a require naming its extension.
Removal direction: removing needed extensions from the require of a valid script must
give exactly  line N: extension '<first missing in script order>' not loaded.
"""
from __future__ import annotations

import itertools
import random
import re

from .. import gen, pwork, rsieve
from ..core import Result, split
from .. import parserlab as lab

LEVEL = "exploration"
RULE = ("accept direction: every accepted input of W-TOK (V_full<=3 with/without preamble, "
        "V_small<=5), W-GEN, per-command tag-subset uses, W-MUT, W-META; removal direction: "
        "for generated valid scripts and for every command x tag subset x 4 contexts, each "
        "single needed extension and random subsets removed from the require; look-alike "
        "direction: generated bodies whose require names only a string resembling the needed "
        "extension (comma lists inside one string, padding, affixes, escaped quotes), as a "
        "single string and inside a list, and as a str with a lone surrogate inside the name; a "
        "quarter of the accepted inputs get a second gate walk over the SOURCE octets read by "
        "the harness's own lexer. Before every look-alike and removal parse (and every "
        "4th other one) all extensions are registered by hand through sievelib.commands (a "
        "require object completed outside any parse). Non-trivial = "
        "accepted input containing at least one extension-bound construct, or a removal case; "
        "distinct = distinct input byte strings.")
ASSUMPTIONS = [
    "frozen construct->extension table in rv/rsieve.py (EXT_OF_COMMAND, EXT_OF_TAG), "
    "written from the RFCs, not derived from sievelib.commands",
    "the line number in the removal message is not judged here (C18 owns positions)",
]
FLOORS = {
    "quick": {"accepted-with-ext-constructs": 3000, "removal-cases": 5000, "lookalike-cases": 20000,
              "parses-after-extensions-were-registered-by-hand": 30000, "source-walks": 3000,
              "lookalike-str-with-lone-surrogate": 1000, "require-hidden-in-a-literal": 3000,
              "constructs-checked": 10000,
              "parses-on-a-parser-that-loaded-everything-before": 10000,
              "removal-cases-on-the-parser-that-accepted-the-full-script": 2000},
    "thorough": {"accepted-with-ext-constructs": 60000, "removal-cases": 50000, "lookalike-cases": 400000,
                 "parses-after-extensions-were-registered-by-hand": 600000, "source-walks": 20000,
                 "lookalike-str-with-lone-surrogate": 12000,
                 "constructs-checked": 200000,
                 "parses-on-a-parser-that-loaded-everything-before": 200000,
                 "removal-cases-on-the-parser-that-accepted-the-full-script": 20000},
}
SHARD_TIMEOUT = {"quick": 600, "thorough": 3000}


def plan(tier, seed):
    shards = pwork.plan(tier, seed)
    for sh in shards:
        if sh["w"] == "gen":
            # some commands fill one optional tag slot twice (the parser keeps the last tag):
            # the claim here is about every accepted input
            sh["repeat"] = 0.15
    n = 1500 if tier == "quick" else 30000
    k = 8 if tier == "quick" else 32
    for i, (s, e) in enumerate(split(n, k)):
        shards.append({"w": "removal-gen", "n": e - s, "rs": seed * 31337 + i})
    n = 400 if tier == "quick" else 8000
    for i, (s, e) in enumerate(split(n, 8 if tier == "quick" else 16)):
        shards.append({"w": "lookalike", "n": e - s, "rs": seed * 65537 + i})
    names = [k for k, v in gen.SPEC.items() if v["tests"] == 0 and k not in ("require", "else")]
    for i, (s, e) in enumerate(split(len(names), 8)):
        shards.append({"w": "removal-uses", "names": names[s:e], "rs": seed * 271 + i,
                       "perm": 4 if tier == "quick" else 24})
    return shards


# ---- accept direction -------------------------------------------------------
def walk(result, res=None):
    """-> list of (construct, extension) used before being required."""
    loaded = set()
    bad = []
    n = [0]

    def need(what, ext):
        n[0] += 1
        if ext not in loaded:
            bad.append((what, ext))

    def node(c, depth=0):
        if depth > 600:
            raise RecursionError
        name = str(c.name).lower()
        if name == "require":
            for v in c.arguments.values():
                vals = v if isinstance(v, list) else [v]
                for x in vals:
                    if isinstance(x, str):
                        b = x.encode("utf-8", "surrogatepass")
                        if b[:1] == b'"' and b[-1:] == b'"' and len(b) >= 2:
                            loaded.add(rsieve.decode_quoted(b).decode("utf-8", "replace"))
                        else:
                            loaded.add(x.strip('"'))
            return
        ext = rsieve.EXT_OF_COMMAND.get(name)
        if ext:
            need(name, ext)
        tests = []
        for slot, v in c.arguments.items():
            if isinstance(v, lab.Command):
                tests.append(v)
            elif isinstance(v, list) and v and all(isinstance(x, lab.Command) for x in v):
                tests.extend(v)
            elif isinstance(v, str) and v[:1] == ":":
                e = rsieve.EXT_OF_TAG.get(v.lower())
                if e:
                    need("%s %s" % (name, v.lower()), e)
        for t in tests:
            node(t, depth + 1)
        for ch in c.children:
            node(ch, depth + 1)

    for c in result:
        node(c)
    return bad, n[0]


def source_walk(data: bytes):
    """The same gate walk, but over the SOURCE octets as read by the harness's own lexer and
    generic grammar (nothing taken from the parser's tree): what the script really says.
    -> list of (construct, extension) | None when the source cannot be read that way"""
    lr = rsieve.lex(data)
    if lr.error:
        return None
    try:
        tree = rsieve.parse_generic(lr.toks)
    except (rsieve.GrammarError, RecursionError):
        return None
    loaded = set()
    bad = []

    def node(c, depth=0):
        if depth > 600:
            raise RecursionError
        if c.name == "require":
            for a in c.args:
                raws = a.items if a.kind == "list" else ([a.tok.text] if a.kind == "str" else [])
                for r in raws:
                    loaded.add(rsieve.decode_string(r))
            return
        ext = rsieve.EXT_OF_COMMAND.get(c.name)
        if ext and ext.encode() not in loaded:
            bad.append((c.name, ext))
        for a in c.args:
            if a.kind == "tag":
                t = a.tok.text.decode("ascii", "replace").lower()
                e = rsieve.EXT_OF_TAG.get(t)
                if e and e.encode() not in loaded:
                    bad.append(("%s %s" % (c.name, t), e))
        for t in c.tests:
            node(t, depth + 1)
        for ch in c.block or []:
            node(ch, depth + 1)

    try:
        for c in tree:
            node(c)
    except RecursionError:
        return None
    return bad


PRELOAD = {"n": 0}


PRIMER = (gen.ALL_EXT_PREAMBLE +
          b'if allof (envelope :is "from" "a", body :contains "x", hasflag "\\\\Seen", '
          b'exists "A", currentdate :value "ge" "year" "2000", header :regex "s" "x", '
          b'header :count "ge" "s" "1") '
          b'{ fileinto :copy :create :flags "f" "a"; reject "no"; addflag "f"; setflag "g"; '
          b'removeflag "h"; vacation :days 2 :addresses ["a@b"] "r"; redirect :copy "a@b"; '
          b'set "v" "1"; }\n')
PRIMED = {"ok": None}


def primed_parser():
    p = lab.sl_parser.Parser()
    try:
        ok = p.parse(PRIMER)
    except Exception:
        ok = None
    if PRIMED["ok"] is None:
        PRIMED["ok"] = ok is True
    return p if ok is True else None


def check_accept(label, data, info, res: Result):
    PRELOAD["n"] += 1
    if label in ("lookalike", "replay") or (label != "tok" and PRELOAD["n"] % 4 == 0):
        # every extension registered by hand through the commands API right before the
        # parse: what was loaded outside this script gates nothing in it
        if lab.complete_require_by_hand():
            res.count("parses-after-extensions-were-registered-by-hand")
    as_text = info.get("as_str")
    used = None
    if label != "tok" and PRELOAD["n"] % 3 == 2:
        # a Parser object that has parsed before: a script that requires every extension
        # and uses a command, a test and a tag of many of them.  What an earlier script on
        # the same object had loaded gates nothing in this one
        used = primed_parser()
        if used is not None:
            res.count("parses-on-a-parser-that-loaded-everything-before")
    o = lab.parse(as_text if as_text is not None else data, parser=used)
    if o.verdict() is not True:
        res.case(data, nontrivial=False)
        return
    try:
        bad, n = walk(o.result)
    except RecursionError:
        return
    if not bad and (label in ("lookalike", "replay", "long") or PRELOAD["n"] % 4 == 1):
        # second opinion from the source octets (the tree could have been made to agree
        # with the verdict, e.g. by text that was altered before it was lexed)
        sb = source_walk(data)
        res.count("source-walks")
        if sb:
            bad = sb
    res.count("accepted")
    res.count("constructs-checked", n)
    res.case(data, nontrivial=n > 0)
    if n:
        res.count("accepted-with-ext-constructs")
    res.monitor("gate-walk", bool(bad))
    for what, ext in bad[:1]:
        res.observe("ungated", what)
        sig = {"dir": "ungated-use", "construct": what, "ext": ext}
        wdata = data
        if res.is_new_sig(sig) and info.get("toks") and label in ("gen", "uses", "mut"):
            from ..core import minimise

            def pred(t):
                oo = lab.parse(gen.join_tokens(t),
                               parser=primed_parser() if used is not None else None)
                return oo.verdict() is True and (what, ext) in walk(oo.result)[0]
            wdata = gen.join_tokens(minimise(info["toks"], pred))
        res.violation(sig, {"input": wdata, "label": label,
                            "parsed_before_on_the_same_parser": PRIMER if used is not None else None})


# ---- removal direction ------------------------------------------------------
_MSG = re.compile(r"^line \d+: extension '([^']*)' not loaded$")


def check_removal(body, exts, removed, rng, res: Result, label):
    remaining = [e for e in exts if e not in removed]
    g = gen.ScriptGen(rng)
    toks = g.require_tokens(remaining) + body
    style = rng.choice(["compact", "lines"])
    upper = rng.random() < 0.2
    if upper:
        toks = gen.recase(toks, "upper", rng)
    data = gen.render(toks, style)
    j = rsieve.judge(data)
    if j.v != rsieve.REJECT or not j.reason.startswith("EXT_NOT_LOADED:"):
        res.count("removal-skipped:%s" % j.v)
        if j.v == rsieve.UNSPEC:
            # nothing is claimed about the message (e.g. a tag slot filled twice), but if
            # the reduced script is accepted the gate walk still applies to it
            res.count("removal-unspec-through-the-gate-walk")
            check_accept("removal-unspec", data, {}, res)
        return
    want = j.reason.split(":", 1)[1]
    ftoks = g.require_tokens(exts) + body
    full = gen.render(gen.recase(ftoks, "upper", rng) if upper else ftoks, style)
    fo = lab.parse(full)
    if fo.verdict() is not True:
        # the parser does not accept the un-reduced script: that is C01's finding,
        # the premise 'a valid script' of the removal clause does not hold
        res.count("removal-skipped:base-not-accepted")
        return
    if lab.complete_require_by_hand():
        res.count("parses-after-extensions-were-registered-by-hand")
    before = None
    if rng.random() < 0.5:
        o = lab.parse(data)
    else:
        # the reduced script goes to the Parser object that has just accepted the full one
        res.count("removal-cases-on-the-parser-that-accepted-the-full-script")
        o = lab.parse(data, parser=fo.parser)
        before = full
    res.count("removal-cases")
    res.case(data)
    res.observe("removed-extension", want)
    res.monitor("removal-message", False)
    got = None
    if o.verdict() is False and isinstance(o.error, str):
        m = _MSG.match(o.error)
        got = m.group(1) if m else None
    if got != want:
        res.monitors["removal-message"][1] += 1
        sig = {"dir": "removal", "ext": want,
               "outcome": ("accepted" if o.verdict() is True else
                           "wrong-extension-named" if got else
                           "other-error" if o.verdict() is False else str(o.verdict()))}
        res.violation(sig, {"input": data, "expected": "extension '%s' not loaded" % want,
                            "parser": str(o.verdict()), "parser_error": o.error,
                            "label": label, "parsed_before_on_the_same_parser": before})


def run_removal_gen(shard, res):
    rng = random.Random(shard["rs"])
    g = gen.ScriptGen(rng, maxdepth=3, hostile=0.2)
    g.repeat_slot = 0.2
    for i in range(shard["n"]):
        g.maxdepth = rng.choice([0, 1, 2, 3])
        body, exts = g.body()
        if not exts:
            continue
        for e in exts:
            check_removal(body, exts, {e}, rng, res, "removal-gen")
        if len(exts) > 1:
            k = rng.randrange(2, len(exts) + 1)
            check_removal(body, exts, set(rng.sample(exts, k)), rng, res, "removal-gen")
        if i % 53 == 0:
            res.sample({"workload": "removal", "body": gen.join_tokens(body), "exts": exts}, 2)


def run_removal_uses(shard, res):
    rng = random.Random(shard["rs"])
    for name in shard["names"]:
        for argtoks, exts in gen.exhaustive_command_uses(name, rng, shard["perm"]):
            if not exts:
                continue
            for ctx in range(4):
                body = gen.wrap_use(name, argtoks, [], ctx, rng)
                for e in exts:
                    check_removal(body, exts, {e}, rng, res, "removal-uses")


def lookalikes(e):
    """capability strings that contain / resemble the name e but are not e"""
    return [e + ",x", "x," + e, e + ",", "," + e, e + ",copy", "copy," + e, " " + e, e + " ",
            e + "\n", "\t" + e, e + ";", "[" + e + "]", '\\"' + e + '\\"', e[:-1], e + "s",
            e + " x", "x " + e, "x-" + e, e + "-x", 'a\\",' + e, e + ',\\"b', e + "\r\n",
            e + "," + e, "vnd." + e, e + "/" + e, e + "'", ":" + e, e + ".", ""]


def run_lookalike(shard, res):
    """A require that only names something that LOOKS like the extension (a comma list in
    one string, padding, affixes) must not unlock the extension's constructs."""
    rng = random.Random(shard["rs"])
    g = gen.ScriptGen(rng, maxdepth=2, hostile=0.2)
    done = 0
    while done < shard["n"]:
        g.maxdepth = rng.choice([0, 1, 2])
        body, exts = g.body(rng.choice([1, 1, 2]))
        if not exts:
            continue
        done += 1
        e = rng.choice(exts)
        others = [x for x in exts if x != e]
        for look in lookalikes(e):
            tok = b'"' + look.encode() + b'"'
            if rsieve.decode_quoted(tok) in (x.encode() for x in exts):
                continue
            ot = [b'"%s"' % x.encode() for x in others]
            forms = [
                g._req_list(others) * bool(others) + [b"require", tok, b";"],
                [b"require", b"["] + gen._commas(ot + [tok]) + [b"]", b";"],
                [b"require", b"["] + gen._commas([tok] + ot) + [b"]", b";"],
            ]
            for req in forms:
                toks = req + body
                data = gen.join_tokens(toks)
                res.count("lookalike-cases")
                res.observe("lookalike:extension", e)
                check_accept("lookalike", data, {"toks": toks}, res)
        # the capability written as a multi-line literal whose CONTENT is not the name: dot-
        # stuffed, with its line break, padded (the content of text:\nE\n. is "E" + line break)
        for mls in (b"text:\n.." + e.encode() + b"\n.", b"text:\n..." + e.encode() + b"\n.",
                    b"text:\n" + e.encode() + b"\n.", b"text:\r\n" + e.encode() + b"\r\n.",
                    b"text:\n " + e.encode() + b"\n.", b"text:\n" + e.encode() + b"\n\n."):
            for req in ([b"require", mls, b";"], [b"require", b"[", mls, b"]", b";"]):
                toks = (g._req_list(others) if others else []) + req + body
                data = gen.join_tokens(toks)
                res.count("lookalike-cases")
                res.count("lookalike-multi-line-capability")
                check_accept("lookalike", data, {"toks": toks}, res)
        # the only require naming the extension stands INSIDE a multi-line literal, behind a
        # body line that nearly is the terminator (a dot followed by blanks)
        for blank in (b" ", b"\t", b"\x0c", b"\x0b", b" \t "):
            for nl in (b"\n", b"\r\n"):
                hidden = (b'require "reject";' + nl + b"reject text:" + nl + b"." + blank + nl
                          + b'; require ["%s"%s]; reject text:' % (
                              e.encode(), b"".join(b', "%s"' % x.encode() for x in others))
                          + nl + b"." + nl + b";" + nl)
                data = hidden + gen.join_tokens(body)
                res.count("lookalike-cases")
                res.count("require-hidden-in-a-literal")
                check_accept("lookalike", data, {}, res)
        # the script as a str holding a lone surrogate inside the capability name (text
        # read with errors="surrogateescape"): whatever parse(str) does with it, it must not
        # accept the body on the strength of a name the script does not contain
        for sur in ("\udcff", "\ud800", "\udfff"):
            k = rng.randrange(len(e) + 1)
            look = e[:k] + sur + e[k:]
            text = 'require ["%s"%s];\n' % (look, "".join(', "%s"' % x for x in others)) \
                + gen.join_tokens(body).decode("utf-8", "surrogatepass")
            data = text.encode("utf-8", "surrogatepass")
            res.count("lookalike-cases")
            res.count("lookalike-str-with-lone-surrogate")
            check_accept("lookalike", data, {"as_str": text}, res)


def run_shard(tier, shard, res: Result):
    w = shard["w"]
    if w == "lookalike":
        run_lookalike(shard, res)
    elif w == "removal-gen":
        run_removal_gen(shard, res)
    elif w == "removal-uses":
        run_removal_uses(shard, res)
    else:
        n = 0
        for label, data, info in pwork.cases(shard):
            check_accept(label, data, info, res)
            n += 1
            if shard["w"] != "tok" and n % 199 == 1:
                res.sample({"workload": label, "input": data}, 2)


def replay(witness, res: Result):
    from ..core import unjson_bytes
    data = unjson_bytes(witness["input"])
    check_accept("replay", data, {}, res)
    before = witness.get("parsed_before_on_the_same_parser")
    if before is not None:
        p = lab.sl_parser.Parser()
        lab.parse(unjson_bytes(before), parser=p)
        o = lab.parse(data, parser=p)
        if o.verdict() is True:
            for what, ext in walk(o.result)[0][:1]:
                res.violation({"dir": "ungated-use", "construct": what, "ext": ext},
                              {"input": data, "parsed_before_on_the_same_parser": before})
    if "expected" in witness:
        o = lab.parse(data)
        if before is not None:
            p = lab.sl_parser.Parser()
            lab.parse(unjson_bytes(before), parser=p)
            o = lab.parse(data, parser=p)
        j = rsieve.judge(data)
        if j.v == rsieve.REJECT and j.reason.startswith("EXT_NOT_LOADED:"):
            want = j.reason.split(":", 1)[1]
            m = _MSG.match(o.error or "") if o.verdict() is False else None
            if not m or m.group(1) != want:
                res.violation({"dir": "removal", "ext": want, "outcome": "replayed"},
                              {"input": data, "parser_error": o.error})
