"""C01 — Parser accepts exactly the valid scripts of its supported language.

Oracle A: three-valued reference judge R-SIEVE (ACCEPT/REJECT compared, UNSPEC not).
Oracle B: metamorphic — verdict invariant under case / whitespace / line-ending /
comment rewrites (independent of the judge).
"""
from __future__ import annotations

from .. import pwork, rsieve
from ..core import SEED, Result
from .. import parserlab as lab

LEVEL = "exploration"
RULE = ("W-TOK: every token sequence over V_full (all SPEC commands and tags, "
        "foobar, :foobar, string, numbers, multi-line, punctuation) up to length 3 "
        "with and without an all-extensions require preamble, and over V_small up to "
        "length 5 (thorough: V_full^4, V_small^6, V_tiny^6); W-GEN grammar-directed valid "
        "scripts; every tag subset / capped order of every command in 4 contexts; W-MUT "
        "single-token edits; W-META rewrites. A case is non-trivial when the judge "
        "pronounces ACCEPT or REJECT on it (UNSPEC cases are counted separately) or it is "
        "a metamorphic rewrite; distinct = distinct input byte strings.")
ASSUMPTIONS = [
    "R-SIEVE (rv/rsieve.py: lexer, generic grammar, frozen SPEC table) is the trusted oracle",
    "inputs outside the claim (omitted trailing arguments, repeated tag slot, unknown "
    "extension in require) and inputs where RFC and sievelib may legitimately differ are "
    "classified UNSPEC and not compared",
]
EXHAUSTIVE = {"quick": False, "thorough": False}
FLOORS = {
    "quick": {"judge:ACCEPT": 2000, "judge:REJECT": 100000, "meta:groups": 300,
              "parser:True": 2000, "parser:False": 100000},
    "thorough": {"judge:ACCEPT": 50000, "judge:REJECT": 1000000, "meta:groups": 5000,
                 "parser:True": 50000, "parser:False": 1000000},
}
SHARD_TIMEOUT = {"quick": 600, "thorough": 3000}


def plan(tier, seed):
    return pwork.plan(tier, seed)


def tok_context(j, idx):
    """Describe the token at which the judge found the first definite error."""
    toks = j.toks or []
    if idx is None:
        return "-"
    if idx >= len(toks):
        return "EOF"
    t = toks[idx]
    if t.kind in ("ident", "tag"):
        return t.text.decode("ascii").lower()
    return t.kind


def evaluate(data):
    """(judge verdict, parser outcome, oracle-A violation signature or None)"""
    j = rsieve.judge(data)
    o = lab.parse(data)
    v = o.verdict()
    sig = None
    if j.v == rsieve.ACCEPT and v is not True:
        if v is False:
            sig = {"dir": "false_reject", "error": lab.error_class(o.error),
                   "tok": near_token(j, o)}
        else:
            sig = {"dir": "no_verdict_on_valid", "kind": o.kind,
                   "exc": o.exc[0] if o.kind == "exc" else "hang",
                   "frame": o.exc[2] if o.kind == "exc" else "-"}
    elif j.v == rsieve.REJECT and v is not False:
        if v is True:
            sig = {"dir": "false_accept", "reason": j.reason, "cmd": j.cmd,
                   "at": tok_context(j, j.index)}
        else:
            sig = {"dir": "no_verdict_on_invalid", "kind": o.kind,
                   "exc": o.exc[0] if o.kind == "exc" else "hang",
                   "frame": o.exc[2] if o.kind == "exc" else "-"}
    return j, o, sig


def reuse_applies(shard):
    return shard["w"] != "tok" or (shard["vocab"] == "small" and shard["len"] <= 4)


def check_case(label, data, info, res: Result, meta_state):
    j, o, sig = evaluate(data)
    shared = meta_state.get("shared-parser")
    if shared is not None:
        # the same input through a Parser object that has already parsed every earlier
        # case of this shard (valid and invalid ones): the verdict must not depend on it
        # a second long-lived Parser works alternately with it (on the previous input):
        # whatever is kept at class or module level is then shared between two live objects
        other = meta_state.get("other-parser")
        if other is not None and meta_state.get("prev") is not None:
            lab.parse(meta_state["prev"], parser=other)
            res.count("alternating-parser-runs")
        o2 = lab.parse(data, parser=shared)
        meta_state["n"] = meta_state.get("n", 0) + 1
        if meta_state["n"] % 8 == 0 and o2.verdict() == o.verdict():
            # the same input a second time on the same object
            o3 = lab.parse(data, parser=shared)
            res.count("same-input-twice-runs")
            if o3.verdict() != o2.verdict():
                o2 = o3
        res.monitor("oracle-C-reused-parser", o2.verdict() != o.verdict())
        if o2.verdict() != o.verdict():
            res.violation({"dir": "verdict-depends-on-parser-reuse",
                           "fresh": str(o.verdict()), "reused": str(o2.verdict())},
                          {"input": data, "previous_input": meta_state.get("prev"),
                           "reused_error": o2.error if o2.verdict() is False else None})
            meta_state["shared-parser"] = lab.sl_parser.Parser()
        meta_state["prev"] = data
    if label.startswith("meta:"):
        sig = None  # rewrites are judged by oracle B only (base is judged by A)
    v = o.verdict()
    res.count("judge:" + j.v)
    res.count("parser:%s" % v)
    res.case(data, nontrivial=(j.v != rsieve.UNSPEC or label.startswith("meta")))
    if j.v == rsieve.UNSPEC:
        for u in j.unspec[:1]:
            res.observe("unspec-reasons", u.split(":")[0])
    elif j.v == rsieve.REJECT:
        res.observe("reject-reasons", j.reason.split(":")[0] if j.reason.startswith("EXT") else j.reason)
    res.monitor("oracle-A-judge", sig is not None)
    if sig is not None:
        wdata = data
        if res.is_new_sig(sig) and info.get("toks") and label in ("gen", "uses", "mut", "meta-base"):
            from .. import gen
            from ..core import minimise
            pre = b""
            small = minimise(info["toks"],
                             lambda t: evaluate(gen.join_tokens(t))[2] == sig)
            wdata = gen.join_tokens(small)
            j2, o2, sig2 = evaluate(wdata)
            if sig2 != sig:
                wdata, j2, o2 = data, j, o
            res.violation(sig, {"input": wdata, "label": label, "parser": str(o2.verdict()),
                                "parser_error": o2.error, "judge": repr(j2),
                                "minimised_from_bytes": len(data)})
        else:
            res.violation(sig, {"input": data, "label": label, "parser": str(v),
                                "parser_error": o.error, "judge": repr(j)})
    # Oracle B
    if label == "meta-base":
        meta_state["base"] = (data, v, info.get("group"))
        res.count("meta:groups")
    elif label.startswith("meta:"):
        base = meta_state.get("base")
        if base and base[2] == info.get("group"):
            res.monitor("oracle-B-metamorphic", v != base[1])
            if v != base[1]:
                sig = {"dir": "verdict_not_invariant", "rewrite": label[5:],
                       "base": str(base[1]), "rewritten": str(v),
                       "error": lab.error_class(o.error) if v is False else "-"}
                res.violation(sig, {"base": base[0], "rewritten": data,
                                    "parser_error": o.error})
    return j, o


def near_token(j, o):
    """Token (by the reference lexer) at the position the parser reported."""
    try:
        line, col = o.error_pos[0], o.error_pos[1]
    except Exception:
        return "?"
    for t in j.toks or []:
        if t.line == line and t.col == col:
            if t.kind in ("ident", "tag"):
                return t.text.decode("ascii").lower()
            return t.kind
    return "EOF-or-other"


def run_shard(tier, shard, res: Result):
    st = {}
    if reuse_applies(shard):
        lab.install_transition_recorder()
        st["shared-parser"] = lab.sl_parser.Parser()
        st["other-parser"] = lab.sl_parser.Parser()
    n = 0
    for label, data, info in pwork.cases(shard):
        j, o = check_case(label, data, info, res, st)
        n += 1
        if n % 9973 == 1 or (shard["w"] != "tok" and n % 211 == 1):
            res.sample({"workload": label, "input": data, "judge": j.v,
                        "reason": j.reason, "parser": str(o.verdict())}, cap=3)
    for t in lab.TRANSITIONS:
        res.observe("parser-transitions(state-function/token/outcome)", t)


def replay(witness, res: Result):
    from ..core import unjson_bytes
    st = {}
    if "base" in witness:
        base = unjson_bytes(witness["base"])
        check_case("meta-base", base, {"group": 0}, res, st)
        check_case("meta:replay", unjson_bytes(witness["rewritten"]), {"group": 0}, res, st)
    else:
        check_case("replay", unjson_bytes(witness["input"]), {}, res, st)
