"""C13 — parsing and filter building are independent of what happened before.

History differential: every step of a history (scripts fed to one reused Parser or to fresh
Parsers, interleaved with FiltersSet construction/rendering) must have the outcome the same
step has in a pristine interpreter.  Pristine = os.fork() child of a worker that has imported
sievelib and done nothing else (a sample is cross-checked against real fresh interpreters).
"""
from __future__ import annotations

import io
import itertools
import json
import os
import pickle
import random
import signal
import subprocess
import sys

from .. import core, gen
from ..core import Result, split
from .. import parserlab as lab
from .. import factlab as fl

LEVEL = "exploration"
RULE = ("histories over a pool of 66 scripts (valid with differing requires, invalid, "
        "truncated mid-string-list / mid-test-list / mid-block / mid-command, ending in "
        "comments, with name/description hash comments, scripts that name a comparator / "
        "capability / identifier which another script uses in a different role) and 17 factory steps (three with extension tags in upper / mixed case) + 1 commands-API step (definitions "
        "using :regex/:count/:value/:copy/:create/:flags, body, envelope, currentdate, "
        "imap4flags actions; build + render): quick = all ordered pairs of steps with the "
        "last step being any pool step in reuse and fresh-parser mode, all (parse X and keep "
        "its Parser; step Y; only then FiltersSet.from_parser_result(X)) pairs, plus random "
        "histories; "
        "thorough adds all pairs x pool triples sample and random histories up to length 12. "
        "Non-trivial = history of >= 2 steps; distinct = distinct step sequences.")
ASSUMPTIONS = [
    "a forked child of an import-only process is state-identical to a fresh interpreter "
    "(cross-checked per run on a sample against real subprocess interpreters)",
    "not demanded: stale error/error_pos attributes after a successful parse",
    "add_commands is not part of histories (C20 owns it); one derived command class "
    "(redirectx, a subclass of the stock redirect with one more required argument) is "
    "registered in every worker at start-up, before any history",
]
FLOORS = {
    "quick": {"history-steps": 35000, "histories": 12000, "baseline-crosschecks": 20,
              "reuse-histories": 3000, "factory-after-parse": 1000, "deferred-loads": 2000,
              "steps-with-drawn-scripts": 3000},
    "thorough": {"history-steps": 400000, "histories": 80000, "baseline-crosschecks": 60,
                 "reuse-histories": 30000, "factory-after-parse": 20000,
                 "deferred-loads": 10000, "steps-with-drawn-scripts": 60000},
}
SHARD_TIMEOUT = {"quick": 600, "thorough": 3000}

# (the derived custom command `redirectx` is registered by rv/parserlab.py in every worker)
ALL = gen.ALL_EXT_PREAMBLE.decode()
SCRIPTS = [
    'keep;',
    'require "fileinto"; fileinto "a";',
    'fileinto "a";',
    'require ["fileinto", "copy"]; fileinto :copy "a";',
    'require "fileinto"; fileinto :copy "a";',
    'require ["regex"]; if header :regex "a" "b" { keep; }',
    'if header :regex "a" "b" { keep; }',
    'require ["relational"]; if header :count "ge" "a" "1" { stop; }',
    'if header :count "ge" "a" "1" { stop; }',
    'require "imap4flags"; if hasflag "a" { setflag "b"; }',
    'if hasflag "a" { keep; }',
    'require ["body"]; if body :raw :contains "x" { discard; }',
    'require ["envelope"]; if envelope :is "from" "x" { discard; }',
    'require ["date", "relational"]; if currentdate :zone "+0100" :value "ge" "date" "2020-01-01" { keep; }',
    'require ["vacation", "vacation-seconds"]; vacation :seconds 10 "gone";',
    'require ["vacation"]; vacation :seconds 10 "gone";',
    'require "reject"; reject text:\nbye\n.\n;',
    'require ["mailbox", "fileinto"]; fileinto :create "x";',
    'require ["variables"]; set "a" "b";',
    '# Filter: one\n# Description: first\nif true { keep; }\n# Filter: two\nif false { stop; }',
    '# just a comment',
    'keep; # trailing comment',
    'if true { keep; } /* unterminated',
    'if anyof (true, false) { keep; } else { discard; }',
    'if true { if true { if true { keep; } } }',
    # invalid / truncated
    'require ["fileinto", "copy"',
    'require ["fileinto",',
    'if anyof (true,',
    'if anyof (true, not',
    'if true { keep;',
    'if true { if false {',
    'require "fileinto"; fileinto',
    'require ["imap4flags"]; if hasflag',
    'if header :comparator',
    'if header :is ["a", "b"',
    'keep',
    'foobar;',
    'if true { keep; } }',
    'elsif true { }',
    'require "fileinto"; fileinto "a" "b";',
    'keep "\xe9";',
    '&',
    'if not { }',
    '',
    # one script names a thing, a later one uses it in another role (comparators, match
    # values, capability / command / tag names that only exist because an earlier script
    # mentioned them)
    'require "comparator-i;ascii-numeric"; keep;',
    'if header :comparator "i;ascii-numeric" :is "a" "b" { keep; }',
    'require ["comparator-i;unicode-casemap", "fileinto"]; fileinto "a";',
    'if header :comparator "i;unicode-casemap" :is "a" "b" { keep; }',
    'require ["x-custom", "comparator-x-custom"]; keep;',
    'if header :comparator "x-custom" :is "a" "b" { keep; }',
    'require "relational"; if header :count "x-custom" "a" "1" { keep; }',
    'x-custom;',
    'require "foobar"; keep;',
    'if foobar { keep; }',
    'keep :foobar;',
    # text that has no UTF-8 encoding (a lone surrogate, as read with surrogateescape): handed
    # to parse() as str; whatever happens must not depend on what the Parser did before
    # a command whose completion callback runs ANOTHER Parser to its end (rv/parserlab.py):
    # what that other Parser was given must not show in this script's outcome
    # a test left without its arguments right before a block (the lexer is rewound there)
    'require "imap4flags"; if hasflag { keep; }',
    'require "imap4flags";\nif hasflag :is {\n keep;\n}',
    'require "imap4flags"; if anyof (hasflag, true) { keep; }',
    'includex "a"; keep;',
    'if true { includex "abcdef"; stop; } discard;',
    'keep;\nincludex "abc";\nfoobar;',
    'redirect "postmaster@example.org";',
    'redirectx "postmaster@example.org" "fyi";',
    'redirectx "a@example.org";',
    'keep "\udcff";',
    '\n\nkeep;\n\udcc3\udca9 foobar;',
]

# factory steps: (conditions, actions, matchtype)
FACTORY = [
    ([("Subject", ":regex", "^a")], [("keep",)], "anyof"),
    ([("Subject", ":count", "1")], [("keep",)], "anyof"),
    ([("Subject", ":is", "a")], [("fileinto", ":copy", "F")], "anyof"),
    ([("Subject", ":notcontains", "a")], [("fileinto", ":create", "F")], "allof"),
    ([("body", ":raw", ":contains", "x")], [("discard",)], "anyof"),
    ([("body", ":text", ":regex", "x")], [("discard",)], "anyof"),
    ([("envelope", ":is", ["from"], ["a@b"])], [("redirect", "c@d")], "anyof"),
    ([("envelope", ":regex", ["from"], ["a@b"])], [("redirect", "c@d")], "anyof"),
    ([("address", ":count", "from", "1")], [("stop",)], "anyof"),
    ([("currentdate", ":zone", "+0100", ":value", "ge", "date", "2020-01-01")],
     [("keep",)], "anyof"),
    ([("exists", "a", "b")], [("setflag", "\\\\Seen")], "anyof"),
    ([("size", ":over", "1k")], [("keep", ":flags", ["a"])], "anyof"),
    ([("true",)], [("vacation", ":seconds", 5, "r")], "anyof"),
    ([("notexists", "x")], [("reject", "no")], "allof"),
    # extension tags in other letter cases (tags are case-insensitive)
    ([("Subject", ":REGEX", "^a")], [("keep",)], "anyof"),
    ([("Subject", ":Count", "1")], [("fileinto", ":COPY", "F")], "anyof"),
    ([("true",)], [("vacation", ":SECONDS", 5, "r")], "anyof"),
    # not a filter: every extension registered through the commands API, outside any parse
    ("api", "complete-a-require-by-hand", None),
    # which script the nested Parser of `includex` gets from now on (harness-side knob)
    ("api", "nested-parser-input", 1), ("api", "nested-parser-input", 2),
    ("api", "nested-parser-input", 3), ("api", "nested-parser-input", 6),
]

NSCRIPTS = len(SCRIPTS)
NSTEPS = NSCRIPTS + len(FACTORY)


def plan(tier, seed):
    shards = []
    k = 16 if tier == "quick" else 32
    # all ordered pairs (first, last) of steps
    pairs = NSTEPS * NSTEPS
    for s, e in split(pairs, k):
        shards.append({"w": "pairs", "range": [s, e]})
    nr = 8000 if tier == "quick" else 80000
    for i, (s, e) in enumerate(split(nr, k)):
        shards.append({"w": "random", "n": e - s, "rs": seed * 1000003 + i,
                       "maxlen": 5 if tier == "quick" else 12})
    return shards


# ---------------------------------------------------------------------------
def text_of(sid):
    """a pool script by index, or a drawn script carried in the step itself"""
    return sid if isinstance(sid, str) else SCRIPTS[sid]


def drawn_scripts(rng, n):
    """scripts from the sentence generator of the parser checks (rv/gen.py): accepted ones
    with random requires, values from W-TEXT, and single-token edits of them"""
    out = []
    g = gen.ScriptGen(rng, maxdepth=2, hostile=0.3, multiline=0.1)
    while len(out) < n:
        toks, _exts = g.script(rng.randint(1, 4))
        if rng.random() < 0.4:
            eds = gen.targeted_edits(toks, rng) or [toks]
            toks = rng.choice(eds)
            toks = toks[-1] if isinstance(toks, tuple) else toks
        try:
            out.append(gen.render(toks).decode("utf-8"))
        except (UnicodeDecodeError, TypeError):
            continue
    return out


def run_step(step, parsers):
    """Execute one step; returns a picklable outcome."""
    kind = step[0]
    if kind == "parse":
        _, sid, mode = step
        try:
            data = text_of(sid).encode("utf-8")
        except UnicodeEncodeError:
            data = text_of(sid)  # goes to parse() as str
        if mode == "reuse":
            p = parsers.setdefault("shared", lab.sl_parser.Parser())
        else:
            p = lab.sl_parser.Parser()
        o = lab.parse(data, parser=p)
        v = o.verdict()
        if v is True:
            try:
                nf = lab.nf_result(p.result)
            except RecursionError:
                nf = "too-deep"
            ser = core.guarded(lab.serialise, 500000, p.result)
            hc = [getattr(c, "hash_comments", None) for c in p.result]
            return ("parse", True, repr(nf), repr(ser[:2]), repr(hc))
        if v is False:
            return ("parse", False, p.error, tuple(p.error_pos))
        return ("parse", v, repr(o.exc))
    _, fid = step
    conds, acts, mt = FACTORY[fid]
    if conds == "api" and acts == "nested-parser-input":
        lab.NESTED["inner"] = mt
        return ("api", "nested-parser-input")
    if conds == "api":
        return ("api", lab.complete_require_by_hand())
    fs = fl.FiltersSet("h")
    r = fl.call(fs.addfilter, "f", list(conds), list(acts), mt)
    if r[0] != "ret":
        return ("factory", r[0], r[1] if r[0] == "exc" else "hang")
    t = fl.render(fs)
    c = fl.call(fs.get_filter_conditions, "f")
    return ("factory", "ret", repr(t), repr(c))


def in_child(fn, *a):
    """Run fn(*a) in a forked child of this (pristine) process."""
    r, w = os.pipe()
    pid = os.fork()
    if pid == 0:
        try:
            os.close(r)
            signal.alarm(60)
            try:
                out = ("ok", fn(*a))
            except BaseException as e:  # noqa
                out = ("err", "%s: %s" % (type(e).__name__, e))
            with os.fdopen(w, "wb") as f:
                pickle.dump(out, f)
        finally:
            os._exit(0)
    os.close(w)
    with os.fdopen(r, "rb") as f:
        data = f.read()
    os.waitpid(pid, 0)
    if not data:
        return ("err", "child died")
    return pickle.loads(data)


def load_outcome(p):
    """FiltersSet built from a finished Parser: requires, names, rendering."""
    fs = fl.FiltersSet("loaded")
    r = fl.call(fs.from_parser_result, p)
    if r[0] != "ret":
        return ("load", r[0], r[1] if r[0] == "exc" else "hang")
    t = fl.render(fs)
    return ("load", "ret", repr(sorted(fs.requires)), repr([f["name"] for f in fs.filters]),
            repr(t))


def run_history(steps):
    parsers = {}
    out = []
    deferred = []
    for s in steps:
        if s[0] == "load":
            p = lab.sl_parser.Parser()
            try:
                o = lab.parse(text_of(s[1]).encode("utf-8"), parser=p)
            except UnicodeEncodeError:
                o = lab.parse(text_of(s[1]), parser=p)
            out.append(("load-parse", o.verdict()))
            if o.verdict() is True:
                deferred.append(p)
            else:
                deferred.append(None)
        else:
            out.append(run_step(s, parsers))
    # sets are built from the kept parsers only now, after everything else has happened
    tail = [load_outcome(p) if p is not None else ("load", "not-accepted") for p in deferred]
    return out + [("deferred", tuple(tail))]


_baseline = {}


def baseline(step):
    key = step if step[0] in ("factory", "load") else ("parse", step[1])
    b = _baseline.get(key)
    if b is None:
        # pristine: fresh child, fresh Parser, nothing before (and for a load step the set
        # is built right after its own parse, with nothing in between)
        s = step if step[0] in ("factory", "load") else ("parse", step[1], "fresh")
        b = _baseline[key] = in_child(run_history, [s])
    return b


LOADABLE = None


def step_of(i, mode):
    if i < NSCRIPTS:
        return ("parse", i, mode)
    return ("factory", i - NSCRIPTS)


def load_step(rng):
    return ("load", rng.randrange(NSCRIPTS))


def describe(step):
    if step[0] == "parse":
        return {"parse": text_of(step[1]), "parser": step[2]}
    if step[0] == "load":
        return {"parse-and-keep-parser-then-build-FiltersSet-at-the-end": text_of(step[1])}
    c, a, m = FACTORY[step[1]]
    if c == "api":
        return {"commands-api": a, "arg": m}
    return {"factory": {"conditions": c, "actions": a, "matchtype": m}}


def check_history(steps, res: Result):
    out = in_child(run_history, steps)
    res.count("histories")
    res.count("history-steps", len(steps))
    if any(s[0] == "parse" and s[2] == "reuse" for s in steps):
        res.count("reuse-histories")
    res.case(repr(steps), nontrivial=len(steps) >= 2)
    if out[0] != "ok":
        res.inconclusive.append("history child failed: %s" % (out[1],))
        return
    # deferred loads: the set built at the end of the history must equal the set built
    # right after its own parse in a pristine interpreter
    loads = [s for s in steps if s[0] == "load"]
    if loads:
        got_tail = out[1][-1][1]
        for s, got in zip(loads, got_tail):
            b = baseline(s)
            if b[0] != "ok":
                res.inconclusive.append("baseline child failed: %s" % (b[1],))
                return
            want = b[1][-1][1][0]
            res.count("deferred-loads")
            res.monitor("history-differential", got != want)
            if got != want:
                res.violation({"step": "from_parser_result", "differs": "loaded-set",
                               "mode": "-", "after": "other-steps"},
                              {"history": [describe(x) for x in steps],
                               "in_history": repr(got)[:400], "pristine": repr(want)[:400]})
                return
    seen_parse = False
    for i, (step, got) in enumerate(zip(steps, out[1])):
        if step[0] == "load":
            continue
        b = baseline(step)
        if b[0] != "ok":
            res.inconclusive.append("baseline child failed: %s" % (b[1],))
            return
        want = b[1][0]
        if step[0] == "factory" and seen_parse:
            res.count("factory-after-parse")
        if step[0] == "parse":
            seen_parse = True
        res.monitor("history-differential", got != want)
        if got != want:
            what = _what_differs(got, want)
            prev = steps[i - 1] if i else None
            sig = {"step": step[0], "differs": what,
                   "mode": step[2] if step[0] == "parse" else "-",
                   "after": prev[0] if prev else "-"}
            res.violation(sig, {"history": [describe(s) for s in steps[:i + 1]],
                                "in_history": repr(got)[:400], "pristine": repr(want)[:400]})
            return


def _what_differs(got, want):
    if got[0] == "parse":
        if got[1] != want[1]:
            return "verdict"
        if got[1] is True:
            for k, name in ((2, "tree"), (3, "serialisation"), (4, "hash-comments")):
                if got[k] != want[k]:
                    return name
        if got[1] is False:
            return "error-text" if got[2] != want[2] else "error-pos"
        return "other"
    if got[1] != want[1]:
        return "factory-outcome:%s-vs-%s" % (got[1], want[1])
    if got[1] != "ret":
        return "factory-exception-type"
    return "factory-output" if got[2] != want[2] else "factory-readback"


def crosscheck(res: Result, rng, n):
    """Validate the fork shortcut against real fresh interpreters."""
    code = ("import sys, json; sys.path.insert(0, %r); import os; os.environ['VERIF_REPO']=%r;"
            "from rv.checks import c13; "
            "print(json.dumps(repr(c13.run_history([tuple(json.loads(sys.argv[1]))]))))"
            % (core.VERIF_DIR, core.REPO))
    for _ in range(n):
        i = rng.randrange(NSTEPS)
        step = step_of(i, "fresh")
        b = baseline(step)
        p = subprocess.run([sys.executable, "-c", code, json.dumps(list(step))],
                           cwd=core.VERIF_DIR, stdout=subprocess.PIPE,
                           stderr=subprocess.PIPE, timeout=120,
                           env=dict(os.environ, PYTHONHASHSEED="0", VERIF_REPO=core.REPO))
        res.count("baseline-crosschecks")
        try:
            got = json.loads(p.stdout.decode().strip().splitlines()[-1])
        except Exception:
            res.inconclusive.append("crosscheck subprocess failed: %s" % p.stderr.decode()[-300:])
            continue
        if b[0] != "ok" or got != repr(b[1]):
            res.inconclusive.append("fork baseline differs from fresh interpreter for %r" % (
                describe(step),))


def run_shard(tier, shard, res: Result):
    rng = random.Random(shard.get("rs", shard.get("range", [0])[0]))
    if shard["w"] == "pairs":
        s, e = shard["range"]
        for idx in range(s, e):
            a, b = divmod(idx, NSTEPS)
            for mode in ("reuse", "fresh"):
                if mode == "fresh" and a >= NSCRIPTS and b >= NSCRIPTS:
                    continue
                check_history([step_of(a, mode), step_of(b, mode)], res)
            if a < NSCRIPTS:
                # parse a and keep its parser, do step b, only then build the set from a
                check_history([("load", a), step_of(b, "fresh")], res)
            if idx % 997 == 0:
                res.sample({"workload": "pairs", "history": [describe(step_of(a, "reuse")),
                                                            describe(step_of(b, "reuse"))]}, 2)
        crosscheck(res, rng, 2)
    else:
        drawn = drawn_scripts(rng, 16)
        for i in range(shard["n"]):
            if i % 200 == 199:
                for d in drawn:
                    _baseline.pop(("parse", d), None)
                    _baseline.pop(("load", d), None)
                drawn = drawn_scripts(rng, 16)
            L = rng.randint(3, shard["maxlen"])
            mode = rng.choice(["reuse", "reuse", "fresh", "mixed"])
            steps = []
            for _ in range(L):
                m = mode if mode != "mixed" else rng.choice(["reuse", "fresh"])
                r = rng.random()
                if r < 0.15:
                    steps.append(load_step(rng))
                elif r < 0.35:
                    # a drawn script instead of a pool script (parse or parse-and-load-later)
                    res.count("steps-with-drawn-scripts")
                    steps.append(("load", rng.choice(drawn)) if rng.random() < 0.2
                                 else ("parse", rng.choice(drawn), m))
                else:
                    steps.append(step_of(rng.randrange(NSTEPS), m))
            check_history(steps, res)
            if i % 499 == 0:
                res.sample({"workload": "random", "history": [describe(s) for s in steps]}, 1)
