"""C20 — registered custom commands are parsed and printed according to their definition.

A definition interpreter written from the README's documented format decides
ACCEPT / REJECT / UNSPEC for each use of a generated command class; the tree must record
the arguments under the defined names (flattened order == source order) and the
serialisation must re-parse to the same tree.  Each definition is registered in its own
forked child, so registrations never leak between cases.
"""
from __future__ import annotations

import itertools
import random

from .. import core, gen, rsieve
from ..core import Result, split
from .. import parserlab as lab

LEVEL = "exploration"
RULE = ("argument definitions of the documented shape: 0-4 optional tag slots (1-2 tags per "
        "slot, with or without a parameter of type string / number / stringlist / "
        "[string,stringlist], optional value set, optional valid_for), then 1-3 required "
        "positional arguments (string / string-or-list / number), action or test, with or "
        "without an extension; uses: every tag subset, capped permutations, upper-case tags, "
        "list and string forms, plus single-edit invalid variants (wrong positional type, "
        "surplus argument, unknown tag, wrong parameter type, parameter outside its value "
        "set, missing require, tag after positional, swapped positionals). Non-trivial = use "
        "on which the interpreter pronounces ACCEPT or REJECT; distinct = distinct "
        "(definition, use) pairs.")
ASSUMPTIONS = [
    "the definition interpreter in this file (written from README.rst) is the oracle",
    "UNSPEC (not compared): omitted trailing required arguments, a tag slot filled twice, a "
    "parameter value that differs from a permitted one in letter case only",
    "a single string is an accepted use of a parameter declared as (bare) stringlist: RFC 5228 "
    "2.4.2.1, and the suite pins `vacation :addresses \"a@b\"` for a built-in declared that way",
    "definitions without any required argument are outside the claim",
]
FLOORS = {
    "quick": {"definitions": 1500, "uses:ACCEPT": 15000, "uses:REJECT": 30000,
              "trees-compared": 15000, "roundtrips": 15000, "unregistered-probes": 5000,
              "accepted-uses-with-a-single-string-for-a-stringlist-parameter": 1000,
              "uses-on-a-parser-with-a-failed-parse-behind-it": 30000, "derived-definitions": 300, "redefinitions": 300,
              "uses-in-test-lists": 1000,
              "derived-uses:ACCEPT": 3000},
    "thorough": {"definitions": 8000, "uses:ACCEPT": 150000, "uses:REJECT": 150000,
                 "trees-compared": 150000, "roundtrips": 150000, "unregistered-probes": 16000,
                 "accepted-uses-with-a-single-string-for-a-stringlist-parameter": 8000, "derived-definitions": 3000, "redefinitions": 3000,
                 "derived-uses:ACCEPT": 30000},
}
SHARD_TIMEOUT = {"quick": 600, "thorough": 3000}

STR = [b'"a"', b'"x y"', b'"\xc3\xa9"', b'"q\\"q"', b'""', b"text:\nml \xc3\xa9\n..dot\n."]
QSTR = STR[:5]  # quoted only: multi-line items inside [...] are C01's known finding
NUM = [b"1", b"10K", b"42"]
EXTS = ["fileinto", "imap4flags", "vacation", "copy"]


def plan(tier, seed):
    n = 1600 if tier == "quick" else 20000
    k = 16 if tier == "quick" else 64
    return [{"w": "defs", "n": e - s, "rs": seed * 1000003 + i, "base": s}
            for i, (s, e) in enumerate(split(n, k))]


# ---------------------------------------------------------------------------
def gen_definition(rng, idx):
    """-> dict describing the definition (picklable, no classes)."""
    # names that contain the words the library itself uses when it maps class names to
    # command names and back
    name = rng.choice(["cust%dx%d", "cust%dx%d", "run%dcommand%d", "sub%dcommandok%d",
                       "command%dfoo%d", "a%dtest%d", "my%daction%d", "x%dcontrol%dcommand"]) % (
                           idx, rng.randrange(1000))
    d = {"name": name, "role": rng.choice(["action", "action", "test"]),
         "ext": rng.choice([None, None] + EXTS), "slots": [], "pos": []}
    used = set()
    for s in range(rng.choice([0, 1, 2, 2, 3, 4])):
        tags = []
        for _ in range(rng.choice([1, 1, 2])):
            t = ":t%d%s" % (s, rng.choice("abcdef"))
            if t not in used:
                used.add(t)
                tags.append(t)
        slot = {"name": "slot%d" % s, "tags": tags, "param": None}
        if rng.random() < 0.6:
            ptype = rng.choice(["string", "number", "stringlist", ["string", "stringlist"]])
            p = {"type": ptype}
            if ptype == "string" and rng.random() < 0.4:
                p["values"] = rng.choice([['"v1"', '"v2"'], ['"High"', '"low"'],
                                          ['"MOVE"', '"Copy"']])
            if ptype == "number" and rng.random() < 0.3:
                p["values"] = rng.choice([["10K", "2M"], ["1", "42"]])
            if len(tags) == 2 and rng.random() < 0.5:
                p["valid_for"] = [tags[0]]
            slot["param"] = p
        d["slots"].append(slot)
    for i in range(rng.choice([1, 1, 2, 3])):
        d["pos"].append({"name": "arg%d" % i,
                         "type": rng.choice([["string"], ["string", "stringlist"],
                                             ["number"], ["string"], ["stringlist"]])})
    if rng.random() < 0.3:
        # a second command whose class DERIVES from this one's class and extends its
        # definition (one more required argument, sometimes one more tag slot); it is used
        # after the parent has been used
        c = {"name": name + "sub", "role": d["role"], "ext": d["ext"],
             "slots": [dict(s) for s in d["slots"]], "pos": [dict(p) for p in d["pos"]]}
        c["pos"].append({"name": "extra%d" % len(c["pos"]),
                         "type": rng.choice([["string"], ["number"], ["string", "stringlist"]])})
        if rng.random() < 0.4:
            c["slots"].append({"name": "slotx", "tags": [":tx%s" % rng.choice("abc")],
                               "param": rng.choice([None, {"type": "string"}])})
        d["child"] = c
    return d


def gen_redefinition(rng, idx, name, role, ext):
    """another definition under the SAME command name (a plug-in reloaded with a new version
    of its command): registering it replaces the first one"""
    d = gen_definition(rng, idx)
    d.pop("child", None)
    d["name"], d["role"], d["ext"] = name, role, ext
    return d


def build_class(d, base=None):
    from sievelib import commands as slc
    args = []
    for s in d["slots"]:
        a = {"name": s["name"], "type": ["tag"], "write_tag": True, "values": list(s["tags"]),
             "required": False}
        if s["param"]:
            a["extra_arg"] = dict(s["param"])
        args.append(a)
    for p in d["pos"]:
        args.append({"name": p["name"], "type": list(p["type"]), "required": True})
    if base is None:
        base = slc.ActionCommand if d["role"] == "action" else slc.TestCommand
    cname = d["name"].capitalize() + "Command"
    attrs = {"args_definition": args}
    if d["ext"]:
        attrs["extension"] = d["ext"]
    return type(cname, (base,), attrs)


def spec_entry(d):
    tags = []
    for s in d["slots"]:
        tg = {}
        for t in s["tags"]:
            has = s["param"] and ("valid_for" not in s["param"] or t in s["param"]["valid_for"])
            tg[t] = ("X" if has else None, None)
        tags.append((s["name"], tg))
    return rsieve._c(d["role"], pos=["SL"] * len(d["pos"]), tags=tags, ext=d["ext"])


# ---- the definition interpreter ------------------------------------------------
def kind_of(tok):
    if tok == b"[":
        return "list"
    if tok[:1] == b'"' or tok.startswith(b"text:"):
        return "string"
    if tok[:1] == b":":
        return "tag"
    if tok[:1].isdigit():
        return "number"
    return "other"


def split_args(toks):
    """token list -> list of (kind, tokens)"""
    out = []
    i = 0
    while i < len(toks):
        if toks[i] == b"[":
            j = toks.index(b"]", i)
            out.append(("stringlist", toks[i:j + 1]))
            i = j + 1
        else:
            out.append((kind_of(toks[i]), [toks[i]]))
            i += 1
    return out


def type_ok(kind, declared):
    if isinstance(declared, str):
        declared = [declared]
    return kind in declared


USED = [0]
USED_BEFORE = [b'redirect ["stale@example.com" "x"];', b'require ["fileinto", ',
               b'if anyof (true, header :is ["stale-a", "stale-b"', b'if true { keep; ',
               b'keep; fileinto :copy']


def interpret(d, argtoks, required):
    """-> ('ACCEPT'|'REJECT'|'UNSPEC', reason, expected arguments dict or None)"""
    args = split_args(argtoks)
    if d["ext"] and d["ext"] not in required:
        return "REJECT", "extension-not-required", None
    tag2slot = {}
    for s in d["slots"]:
        for t in s["tags"]:
            tag2slot[t] = s
    seen = set()
    expect = {"arguments": [], "extra": {}}
    i = 0
    npos = 0
    unspec = None
    while i < len(args):
        kind, toks = args[i]
        if kind == "tag":
            t = toks[0].decode().lower()
            if npos:
                return "REJECT", "tag-after-positional", None
            s = tag2slot.get(t)
            if s is None:
                return "REJECT", "unknown-tag", None
            if s["name"] in seen:
                unspec = "repeated-slot"
            seen.add(s["name"])
            expect["arguments"].append((s["name"], toks[0]))
            i += 1
            p = s["param"]
            if p and ("valid_for" not in p or t in p["valid_for"]):
                if i >= len(args):
                    unspec = unspec or "omitted-tag-parameter"
                    break
                pk, ptoks = args[i]
                if pk == "tag":
                    return "REJECT", "parameter-missing", None
                if not type_ok(pk, p["type"]):
                    if p["type"] == "stringlist" and pk == "string":
                        # RFC 5228 2.4.2.1: a single string is a string list; the README
                        # writes a parameter's type as a bare name and the suite pins
                        # `vacation :addresses "a@b"` for a built-in declared that way
                        expect.setdefault("notes", []).append("single-string-for-stringlist")
                    else:
                        return "REJECT", "parameter-type", None
                if "values" in p and pk in ("string", "number") and \
                        ptoks[0].decode() not in p["values"]:
                    if ptoks[0].decode().lower() in [v.lower() for v in p["values"]]:
                        unspec = unspec or "parameter-value-differs-in-case-only"
                    else:
                        return "REJECT", "parameter-value", None
                expect["extra"][s["name"]] = ptoks
                i += 1
            continue
        if npos >= len(d["pos"]):
            return "REJECT", "surplus-argument", None
        want = d["pos"][npos]["type"]
        ok = type_ok(kind, want) or (kind == "string" and "stringlist" in want)
        if not ok:
            return "REJECT", "positional-type", None
        expect["arguments"].append((d["pos"][npos]["name"], toks))
        npos += 1
        i += 1
    if npos < len(d["pos"]):
        unspec = unspec or "omitted-required-arguments"
    if unspec:
        return "UNSPEC", unspec, None
    return "ACCEPT", None, expect


# ---- uses ------------------------------------------------------------------------
def param_tokens(p, rng, good=True):
    t = p["type"]
    if "values" in p:
        return [rng.choice(p["values"]).encode()] if good else [b'"zz"']
    if t == "string":
        return [rng.choice(STR)]
    if t == "number":
        return [rng.choice(NUM)]
    if t == "stringlist":
        if rng.random() < 0.25:
            return [rng.choice(STR)]  # string-list = "[" ... "]" / string
        return [b"[", rng.choice(QSTR), b",", rng.choice(QSTR), b"]"]
    return rng.choice([[rng.choice(STR)], [b"[", rng.choice(QSTR), b"]"]])


def pos_tokens(p, rng):
    t = p["type"]
    if t == ["number"]:
        return [rng.choice(NUM)]
    if t == ["string"]:
        return [rng.choice(STR)]
    return rng.choice([[rng.choice(STR)], [b"[", rng.choice(QSTR), b",", rng.choice(QSTR), b"]"]])


def valid_uses(d, rng, cap=40):
    slots = d["slots"]
    uses = []
    for k in range(len(slots) + 1):
        for sub in itertools.combinations(range(len(slots)), k):
            perms = list(itertools.permutations(sub))
            if len(perms) > 6:
                perms = rng.sample(perms, 6)
            for perm in perms:
                toks = []
                for si in perm:
                    s = slots[si]
                    t = rng.choice(s["tags"])
                    toks.append(t.upper().encode() if rng.random() < 0.25 else t.encode())
                    p = s["param"]
                    if p and ("valid_for" not in p or t in p["valid_for"]):
                        toks += param_tokens(p, rng)
                for p in d["pos"]:
                    toks += pos_tokens(p, rng)
                uses.append(toks)
    if len(uses) > cap:
        uses = rng.sample(uses, cap)
    return uses


def invalid_variants(d, use, rng):
    out = []
    args = split_args(use)
    flat = lambda a: [t for _, ts in a for t in ts]  # noqa
    # surplus argument
    out.append(use + [b'"surplus"'])
    out.append(use + [b"7"])
    # unknown tag in front
    out.append([b":foobar"] + use)
    # tag after the positionals
    if d["slots"]:
        out.append(use + [d["slots"][0]["tags"][0].encode()])
    # wrong positional type
    for i, (k, ts) in enumerate(args):
        if k == "number":
            out.append(flat(args[:i] + [("string", [b'"s"'])] + args[i + 1:]))
            break
    for i in range(len(args) - 1, -1, -1):
        k, ts = args[i]
        if k in ("string", "stringlist"):
            out.append(flat(args[:i] + [("number", [b"3"])] + args[i + 1:]))
            break
    # swapped positionals
    npos = len(d["pos"])
    if npos >= 2:
        a = args[:-npos]
        p = args[-npos:]
        p2 = [p[1], p[0]] + p[2:]
        out.append(flat(a + p2))
    # wrong parameter type / value
    for i, (k, ts) in enumerate(args):
        if k == "tag" and i + 1 < len(args):
            s = next((s for s in d["slots"] if ts[0].decode().lower() in s["tags"]), None)
            if s and s["param"]:
                if "values" in s["param"]:
                    bad = ("string", [b'"zz"']) if s["param"]["type"] == "string" \
                        else ("number", [b"77"])
                    out.append(flat(args[:i + 1] + [bad] + args[i + 2:]))
                wrong = ("number", [b"5"]) if s["param"]["type"] != "number" \
                    else ("string", [b'"s"'])
                out.append(flat(args[:i + 1] + [wrong] + args[i + 2:]))
                break
    return out


REQ_FORMS = [0]


def wrap(d, argtoks, required):
    """the require in front of the use is written in rotating legal forms: a list, a single
    string, behind other capabilities, behind a capability named twice, in a second require"""
    req = []
    if required:
        ext = sorted(required)
        REQ_FORMS[0] += 1
        form = REQ_FORMS[0] % 6
        L = gen.ScriptGen._req_list
        if form == 0:
            req = L(ext)
        elif form == 1 and len(ext) == 1:
            req = [b"require", b'"%s"' % ext[0].encode(), b";"]
        elif form == 2:
            req = L(["envelope", "body"] + ext)
        elif form == 3:
            req = L(["envelope", "envelope"] + ext)
        elif form == 4:
            req = L(["envelope"]) + L(["envelope"] + ext)
        else:
            req = L(ext + ["body", "body"])
    name = d["name"].encode()
    if d["role"] == "test":
        return req + [b"if", name] + argtoks + [b"{", b"keep", b";", b"}"]
    return req + [name] + argtoks + [b";"]


# ---- one definition, in a forked child ----------------------------------------------
def evaluate_definition(d, seed, others):
    """Runs in the child.  -> dict of counters + violation list."""
    from sievelib import commands as slc
    rng = random.Random(seed)
    cls = build_class(d)
    # the documented ways of registering: one class, a list of classes (classes whose name
    # does not end in "Command" - a shared helper or mixin - are skipped, wherever they stand)
    helper = type("SharedHelper", (object,), {})
    form = seed % 5
    if form == 0:
        slc.add_commands(cls)
    elif form == 1:
        slc.add_commands([cls])
    elif form == 2:
        slc.add_commands([helper, cls])
    elif form == 3:
        slc.add_commands((cls, helper))
    else:
        slc.add_commands(iter([helper, cls, helper]))
    spec = dict(rsieve.SPEC)
    spec[d["name"]] = spec_entry(d)
    out = {"counts": {}, "viols": [], "sample": None}

    def cnt(k, n=1):
        out["counts"][k] = out["counts"].get(k, 0) + n

    def viol(sig, wit):
        if len(out["viols"]) < 12:
            out["viols"].append((sig, wit))

    def roundtrip(o, data, wit, spec):
        """generic-tree isomorphism (C03 oracle) and round trip (C04 oracle)"""
        lr = rsieve.lex(data)
        gt = rsieve.parse_generic(lr.toks)
        nf_src = tuple(lab.norm_generic(x) for x in rsieve.nf_script(gt))
        nf_got = lab.nf_result(o.result)
        if nf_src != nf_got:
            viol({"dir": "tree-not-isomorphic"}, dict(wit, diff=lab.first_diff(nf_src, nf_got)))
        kind, t1, _ = core.guarded(lab.serialise, 400000, o.result)
        if kind != "ret":
            viol({"dir": "tosieve-raised", "exc": t1[0] if kind == "exc" else "hang"}, wit)
            return None
        o1 = lab.parse(t1.encode("utf-8"))
        if o1.verdict() is not True:
            viol({"dir": "serialisation-rejected",
                  "error": lab.error_class(o1.error)}, dict(wit, output=t1))
            return None
        a = tuple(rsieve.canon_nf(x, spec) for x in lab.nf_result(o.result, decoded=True))
        b = tuple(rsieve.canon_nf(x, spec) for x in lab.nf_result(o1.result, decoded=True))
        if a != b:
            viol({"dir": "roundtrip-tree-changed"},
                 dict(wit, output=t1, diff=lab.first_diff(a, b)))
        return t1

    def run_uses(d, spec=None):
        if spec is None:
            spec = dict(rsieve.SPEC)
            spec[d["name"]] = spec_entry(d)
        uses = valid_uses(d, rng)
        cases = []
        for u in uses:
            cases.append(u)
        for u in rng.sample(uses, min(6, len(uses))):
            cases.extend(invalid_variants(d, u, rng))
        required_full = {d["ext"]} if d["ext"] else set()
        for argtoks in cases:
            for required in ([required_full] if not d["ext"] else
                             [required_full] + ([set()] if rng.random() < 0.3 else [])):
                verdict, reason, expect = interpret(d, argtoks, required)
                toks = wrap(d, argtoks, required)
                data = gen.join_tokens(toks)
                USED[0] += 1
                if USED[0] % 3 == 0:
                    # the Parser object has a failed parse behind it that broke off inside a
                    # string list / a test list / a block; this use is judged like any other
                    up = lab.sl_parser.Parser()
                    lab.parse(USED_BEFORE[(USED[0] // 3) % len(USED_BEFORE)], parser=up)
                    o = lab.parse(data, parser=up)
                    cnt("uses-on-a-parser-with-a-failed-parse-behind-it")
                else:
                    o = lab.parse(data)
                v = o.verdict()
                cnt("uses:" + verdict)
                cnt("cases")
                if expect and "single-string-for-stringlist" in expect.get("notes", ()):
                    cnt("accepted-uses-with-a-single-string-for-a-stringlist-parameter")
                wit = {"definition": d, "script": data.decode("utf-8", "replace"),
                       "interpreter": [verdict, reason], "parser": str(v), "error": o.error}
                if verdict == "UNSPEC":
                    # nothing is claimed about the verdict; but what IS accepted must still be
                    # recorded faithfully and serialise to something that re-parses to it
                    if v is True:
                        cnt("roundtrips-of-accepted-unspecified-uses")
                        roundtrip(o, data, wit, spec)
                    continue
                if verdict == "ACCEPT" and v is not True:
                    viol({"dir": "valid-use-" + ("rejected" if v is False else str(v)),
                          "error": lab.error_class(o.error).replace(d["name"], "CUST")
                          if v is False else
                          (o.exc[0] if o.kind == "exc" else "hang")}, wit)
                    continue
                if verdict == "REJECT" and v is not False:
                    viol({"dir": "invalid-use-" + ("accepted" if v is True else str(v)),
                          "reason": reason}, wit)
                    continue
                if verdict != "ACCEPT":
                    continue
                # tree: recorded under the defined names, in source order
                node = o.result[-1]
                if d["role"] == "test":
                    node = node.arguments.get("test")
                cnt("trees-compared")
                got = []
                for slot, val in node.arguments.items():
                    got.append((slot, val))
                want = []
                for slot, t in expect["arguments"]:
                    want.append(slot)
                if [g[0] for g in got] != want or str(node.name) != d["name"]:
                    viol({"dir": "tree-slot-names"},
                         dict(wit, got=[g[0] for g in got], want=want))
                else:
                    for (slot, val), (_, t) in zip(got, expect["arguments"]):
                        exp = t if isinstance(t, bytes) else t
                        if not _same_value(val, exp):
                            viol({"dir": "tree-value", "slot-kind": "tag" if isinstance(t, bytes)
                                  else "positional"}, dict(wit, slot=slot, got=repr(val),
                                                           want=repr(exp)))
                            break
                    for slot, ptoks in expect["extra"].items():
                        if not _same_value(node.extra_arguments.get(slot), ptoks):
                            viol({"dir": "tree-value", "slot-kind": "parameter"},
                                 dict(wit, slot=slot, got=repr(node.extra_arguments.get(slot)),
                                      want=repr(ptoks)))
                            break
                    if set(node.extra_arguments) - set(expect["extra"]):
                        viol({"dir": "tree-extra-parameter"}, wit)
                cnt("roundtrips")
                t1 = roundtrip(o, data, wit, spec)
                if t1 is not None and out["sample"] is None:
                    out["sample"] = {"definition": d, "use": data.decode("utf-8", "replace"),
                                     "serialised": t1}
                if d["role"] == "test" and out["counts"].get("uses-in-test-lists", 0) < 6 \
                        and required == required_full:
                    # the same accepted use twice (and around another test) inside a test
                    # list: equal by value, two objects
                    req = gen.ScriptGen._req_list(sorted(required)) if required else []
                    name = d["name"].encode()
                    for tl in ([b"anyof", b"("] + [name] + argtoks + [b","] + [name] + argtoks + [b")"],
                               [b"allof", b"("] + [name] + argtoks + [b",", b"true", b","] + [name]
                               + argtoks + [b")"]):
                        toks2 = req + [b"if"] + tl + [b"{", b"keep", b";", b"}"]
                        data2 = gen.join_tokens(toks2)
                        o2 = lab.parse(data2)
                        cnt("uses-in-test-lists")
                        wit2 = {"definition": d, "script": data2.decode("utf-8", "replace")}
                        if o2.verdict() is not True:
                            viol({"dir": "valid-use-rejected-inside-a-test-list",
                                  "error": lab.error_class(o2.error).replace(d["name"], "CUST")
                                  if o2.verdict() is False else str(o2.verdict())}, wit2)
                        else:
                            roundtrip(o2, data2, wit2, spec)

    run_uses(d, spec)
    if d.get("child"):
        c = d["child"]
        slc.add_commands(build_class(c, base=cls))
        cnt("derived-definitions")
        before = out["counts"].get("uses:ACCEPT", 0)
        run_uses(c)
        cnt("derived-uses:ACCEPT", out["counts"].get("uses:ACCEPT", 0) - before)
        run_uses(d, spec)  # and the parent again, after the child has been used
    if d.get("redefine"):
        r = d["redefine"]
        slc.add_commands(build_class(r))
        cnt("redefinitions")
        run_uses(r)
    # unregistered names remain unknown
    for nm in ["foobar"] + others:
        for tmpl in (b"%s;", b'%s "a";', b"if %s { keep; }"):
            o = lab.parse(tmpl % nm.encode())
            cnt("unregistered-probes")
            ok = o.verdict() is False and isinstance(o.error, str) and \
                ("unknown command" in o.error)
            if not ok:
                viol({"dir": "unregistered-name-not-unknown"},
                     {"script": (tmpl % nm.encode()).decode(), "parser": str(o.verdict()),
                      "error": o.error})
    return out


def _same_value(val, toks):
    """compare a stored argument value with source tokens"""
    if isinstance(toks, bytes):
        return isinstance(val, str) and val.encode() == toks
    if toks and toks[0] == b"[":
        items = [t for t in toks[1:-1] if t != b","]
        return isinstance(val, list) and [str(v).encode("utf-8") for v in val] == items
    return isinstance(val, (str, int)) and str(val).encode("utf-8") == toks[0]


def run_shard(tier, shard, res: Result):
    rng = random.Random(shard["rs"])
    defs = [gen_definition(rng, shard["base"] + i) for i in range(shard["n"])]
    for i, d in enumerate(defs):
        if i % 4 == 0:
            d["redefine"] = gen_redefinition(rng, shard["base"] + i, d["name"], d["role"], d["ext"])
    for i, d in enumerate(defs):
        others = [x["name"] for x in (defs[i - 1], defs[(i + 1) % len(defs)]) if x is not d]
        r = core.fork_call(evaluate_definition, d, shard["rs"] * 131 + i, others)
        if r[0] != "ok":
            res.inconclusive.append("definition child failed: %s" % r[1][-600:])
            continue
        out = r[1]
        res.count("definitions")
        for k, v in out["counts"].items():
            res.count(k, v)
        n = out["counts"].get("cases", 0)
        res.evaluations += n
        nt = out["counts"].get("uses:ACCEPT", 0) + out["counts"].get("uses:REJECT", 0)
        for j in range(nt):
            res.hashes.add(core.h64("%s/%d" % (d["name"], j)))
        res.observe("shapes", "%s/slots=%d/pos=%d/ext=%s" % (
            d["role"], len(d["slots"]), len(d["pos"]), bool(d["ext"])))
        res.monitor("definition-interpreter", bool(out["viols"]))
        for sig, wit in out["viols"]:
            res.violation(sig, wit)
        if out["sample"] and i % 37 == 0:
            res.sample(out["sample"], 3)
