"""C15 — the client's view of the server stays correct over whole sessions.

History + executable model: random sessions against R-MS (random reply encodings, response
codes, permitted NO outcomes, recv() segmentation).  After every step the call's result must
be the answer to that call's own command as R-MS computed it, R-MS's protocol-violation log
must be empty (well-formed commands, legal order, one command per call) and nothing may be
left unread (M-QUIESCE).  Every stored body carries a unique id, so a read identifies the
write it observed.
"""
from __future__ import annotations

import random

from .. import mslab, msmodel as ms, textgen
from ..core import Result, split

LEVEL = "exploration"
RULE = ("random sessions of 5-30 operations (listscripts, getscript, putscript, setactive, "
        "deletescript, renamescript native or emulated, havespace, checkscript, capability) "
        "over a pool of 5 names against R-MS with quota, random status-text encodings "
        "(quoted/literal), response codes and random recv() segmentation, with occasional "
        "re-connects of the same client object (after a logout or not; accepted, or refused "
        "at the greeting / the login, after which every script operation must be refused "
        "locally); two strata: "
        "'conventional' (names quoted, bodies literal - every data result compared) and "
        "'any-encoding' (names/bodies quoted or literal at random, hostile names - data "
        "equality of listings/bodies is C17's, everything else compared). Non-trivial = "
        "session with >= 5 steps; distinct = distinct sessions (by seed and step list).")
ASSUMPTIONS = [
    "R-MS (rv/msmodel.py) is the reference model of a conforming RFC 5804 server",
    "a small stratum runs the same sessions over a real socket.socketpair() with the model "
    "in a thread, to confirm the monitors agree on the real socket class; a wall-clock "
    "socket timeout there would be reported as inconclusive, never as a violation",
    "script content compared modulo line endings and trailing blank lines",
]
FLOORS = {"quick": {"sessions": 5000, "steps": 60000, "steps:NO-outcomes": 6000,
                    "emulated-renames": 1000, "segmented-sessions": 2000,
                    "socketpair-sessions": 150, "reconnects": 1500, "sessions-on-a-slow-link": 800,
                    "reconnects-refused": 500, "inactive-names-listed-as-literals": 2000},
          "thorough": {"sessions": 500000, "steps": 6000000, "steps:NO-outcomes": 600000,
                       "emulated-renames": 90000, "segmented-sessions": 200000,
                       "socketpair-sessions": 3000, "reconnects": 100000,
                       "reconnects-refused": 30000,
                       "inactive-names-listed-as-literals": 200000}}
SHARD_TIMEOUT = {"quick": 600, "thorough": 3000}

NAMES_CONV = ["main", "vacation", "x y", "été", "spam-rules",
              # names that end like the listing's own marker, or in a blank
              "inactive", "Proactive", "old ACTIVE", "trail ", " lead"]


def conv_name(srv, name, res):
    """conventional listing: names as quoted strings - except that a name which is not the
    active one and does not start with a double quote is sent as a literal now and then (RFC
    5804 lets the server choose; the two excluded shapes are C17's recorded findings)"""
    if name != srv.active and not name.startswith(b'"') and srv.rng.random() < 0.3:
        res.count("inactive-names-listed-as-literals")
        return ms.literal(name)
    return ms.quoted(name)
NAMES_ANY = ["main", 'q"q', "{5}", "OK", "a\\b", "ACTIVE",
             # at most 1024 octets raw, more than 1024 once '"' and '\\' are escaped
             "x" * 1000 + '"' * 20, "\\" * 513, 'é"' * 341,
             # a quote first and none after it, many escapes
             '"' + "a" * 40, 'q"' * 10 + "\\" * 10]


def plan(tier, seed):
    n = 6000 if tier == "quick" else 600000
    k = 16 if tier == "quick" else 64
    shards = [{"w": "sessions", "n": e - s, "rs": seed * 1000003 + i}
              for i, (s, e) in enumerate(split(n, k))]
    # sanity stratum over a real socket.socketpair() (server model in a thread)
    ns = 200 if tier == "quick" else 4000
    shards += [{"w": "socketpair", "n": e - s, "rs": seed * 7919 + 50 + i}
               for i, (s, e) in enumerate(split(ns, 4 if tier == "quick" else 16))]
    return shards


def norm(text):
    lines = text.replace("\r\n", "\n").split("\n")
    while lines and lines[-1] == "":
        lines.pop()
    return lines


def expected(srv, op, args, emulated):
    """What a conforming server would answer, computed from the model state *before*."""
    sc, act = srv.scripts, srv.active
    b = lambda s: s.encode("utf-8")  # noqa
    if op == "listscripts":
        return (act.decode() if act else None, [k.decode() for k in sc if k != act])
    if op == "getscript":
        c = sc.get(b(args[0]))
        return None if c is None else norm(c.decode("utf-8"))
    if op == "putscript":
        used = sum(len(v) for k, v in sc.items() if k != b(args[0]))
        return used + len(b(args[1])) <= srv.quota
    if op == "setactive":
        return args[0] == "" or b(args[0]) in sc
    if op == "deletescript":
        return b(args[0]) in sc and b(args[0]) != act
    if op == "renamescript":
        return b(args[0]) in sc and b(args[1]) not in sc
    if op == "havespace":
        return args[1] <= srv.quota
    if op == "checkscript":
        return "INVALID" not in args[0]
    return "any"


def run_session(rng, res: Result, idx, real_socket=False):
    conv = rng.random() < 0.6
    names = NAMES_CONV if conv else NAMES_ANY
    if not conv and rng.random() < 0.5:
        w = textgen.text(rng, 1, 8, exclude=["nul", "control", "line-break"])
        w = "".join(ch for ch in w if ch not in "\r\n\x00") or "w"
        names = names + [w]
    version = rng.random() < 0.6
    segmented = rng.random() < 0.5
    srv = ms.Server(rng=random.Random(rng.randrange(1 << 30)), users={b"user": b"pw"},
                    version=version, quota=400,
                    encodings="mixed")
    srv.active_marker = rng.choice([b"ACTIVE", b"ACTIVE", b"active", b"Active"])
    # what the server offers for authentication: always something the client implements,
    # sometimes next to names that merely contain an implemented mechanism's name
    srv.sasl = rng.choice([["PLAIN"], ["PLAIN"], ["LOGIN"], ["DIGEST-MD5", "PLAIN"],
                           ["SCRAM-SHA-1", "PLAIN-CLIENTTOKEN", "LOGIN"], ["XLOGIN", "PLAIN"],
                           ["DIGEST-MD5-SESS", "OAUTHBEARER-X", "LOGIN"],
                           ["GSSAPI", "X-PLAIN-SUBMIT", "LOGIN2", "PLAIN"]])
    if conv:
        # names quoted, bodies literal; status texts still vary
        orig_how = srv.how
        srv.how_script = lambda: "literal"
        def do_list(args, srv=srv):
            if not srv._want(args):
                return
            for name in srv.scripts:
                srv.emit(conv_name(srv, name, res))
                if name == srv.active:
                    srv.emit(b" " + srv.active_marker)
                srv.emit(ms.CRLF)
            srv.final("OK", None, b"Listscripts completed.")
        srv.do_listscripts = do_list
    seg = ms.Seg(rng=random.Random(rng.randrange(1 << 30))) if segmented else ms.Seg()
    if real_socket:
        sess = mslab.SocketpairSession(srv)
        segmented = False
        res.count("socketpair-sessions")
    else:
        sess = mslab.Session(srv, seg)
        if segmented and rng.random() < 0.5:
            # slow but steady link (virtual time): seconds pass with every recv(), no time-out
            sess.seconds_per_recv = rng.choice([0.3, 1.0, 3.0])
            res.count("sessions-on-a-slow-link")
    try:
        _run_steps(rng, res, idx, sess, srv, conv, names, version, segmented, real_socket)
    finally:
        if real_socket:
            sess.close()


def _run_steps(rng, res, idx, sess, srv, conv, names, version, segmented, real_socket):
    r = sess.connect("user", "pw")
    if r != ("ret", True):
        res.violation({"step": "connect", "problem": "connect-failed"},
                      {"outcome": repr(r), "violations": srv.violations[:3]})
        return
    res.count("sessions")
    if segmented:
        res.count("segmented-sessions")
    steps = []
    uid = 0
    nsteps = rng.randint(5, 30)
    for k in range(nsteps):
        if not real_socket and rng.random() < 0.06:
            # a new connection on the same client object (with or without a logout first):
            # same script store, fresh connection state; sometimes the login is refused
            if rng.random() < 0.4:
                sess.call("logout")
            old = srv
            good = rng.random() < 0.5
            srv = ms.Server(rng=random.Random(rng.randrange(1 << 30)), users={b"user": b"pw"},
                            version=version, quota=400, encodings="mixed",
                            faults={} if good else {rng.choice(["auth-verdict", "greeting"]):
                                                    rng.choice(["NO", "BYE"])})
            srv.scripts, srv.active = old.scripts, old.active
            for attr in ("how_script", "do_listscripts"):
                if attr in old.__dict__:
                    pass
            if conv:
                srv.how_script = lambda: "literal"

                def do_list(args, srv=srv):
                    if not srv._want(args):
                        return
                    for name in srv.scripts:
                        srv.emit(conv_name(srv, name, res))
                        if name == srv.active:
                            srv.emit(b" " + srv.active_marker)
                        srv.emit(ms.CRLF)
                    srv.final("OK", None, b"Listscripts completed.")
                srv.do_listscripts = do_list
            sess.server = srv
            r2 = sess.connect("user", "pw")
            steps.append(["connect", "accepted" if good else "refused", repr(r2)[:40]])
            res.count("reconnects")
            if good and r2 != ("ret", True):
                res.violation({"op": "connect", "problem": "reconnect-failed",
                               "stratum": "reconnect"}, {"steps": steps, "outcome": repr(r2)})
                return
            if not good:
                res.count("reconnects-refused")
                if r2 == ("ret", True) or sess.client.authenticated:
                    res.violation({"op": "connect", "problem": "refused-login-reported-success",
                                   "stratum": "reconnect"}, {"steps": steps, "outcome": repr(r2)})
                    return
                # every script operation must now be refused locally, nothing may reach
                # the unauthenticated connection
                mark = sess.wire.mark()
                o3 = sess.call("listscripts")
                sent = sess.wire.sent_since(mark)
                if not (o3[0] == "exc" and o3[1] == "Error") or sent or srv.violations:
                    res.violation({"op": "listscripts", "stratum": "reconnect",
                                   "problem": "script-command-on-unauthenticated-connection"},
                                  {"steps": steps, "outcome": repr(o3)[:120], "sent": sent[:80],
                                   "server_violations": srv.violations[:2]})
                    return
                # log in again properly and go on
                srv = ms.Server(rng=random.Random(rng.randrange(1 << 30)),
                                users={b"user": b"pw"}, version=version, quota=400,
                                encodings="mixed")
                srv.scripts, srv.active = old.scripts, old.active
                if conv:
                    srv.how_script = lambda: "literal"
                    srv.do_listscripts = (lambda s: (lambda args: do_list(args, s)))(srv)
                sess.server = srv
                if sess.connect("user", "pw") != ("ret", True):
                    res.inconclusive.append("could not log in again")
                    return
            continue
        ops = ["listscripts", "getscript", "putscript", "putscript", "setactive",
               "deletescript", "renamescript", "havespace", "capability"]
        if version:
            ops.append("checkscript")
        op = rng.choice(ops)
        n1, n2 = rng.choice(names), rng.choice(names)
        if op == "getscript" or op == "deletescript":
            args = (n1,)
        elif op == "setactive":
            args = (rng.choice(names + [""]),)
        elif op == "putscript":
            uid += 1
            body = ("" if rng.random() < 0.05 else "# id-%d-%d\r\n" % (idx, uid)) + "%s" % (rng.choice(
                ["keep;\r\n", "stop;", 'OK "x"\r\nkeep;\r\n', "x" * rng.choice([10, 150, 390]),
                 "",
                 "été €\r\n", "# ff\x0c ls\u2028 nel\x85 end\r\nkeep;\r\n"]))
            args = (n1, body)
        elif op == "renamescript":
            args = (n1, n2)
        elif op == "havespace":
            args = (n1, rng.choice([1, 399, 400, 401, 10 ** 6]))
        elif op == "checkscript":
            args = (rng.choice(["keep;", "INVALID", "# é\r\nstop;"]),)
        else:
            args = ()
        emulated = op == "renamescript" and not version
        want = expected(srv, op, args, emulated)
        nviol = len(srv.violations)
        nstat = len(srv.status_log)
        out = sess.call(op, *args)
        if emulated and want is True and any(e[1] == "NO" for e in srv.status_log[nstat:]):
            # the server refused one step of the emulation (e.g. quota for the copy)
            want = False
        steps.append([op] + [a if not isinstance(a, str) else a[:40] for a in args])
        res.count("steps")
        if want is False or want is None:
            res.count("steps:NO-outcomes")
        if emulated:
            res.count("emulated-renames")
        res.observe("ops", op)
        problem = None
        if out[0] != "ret":
            problem = ("raised:" + (out[1] if out[0] == "exc" else "hang"), repr(out)[:200])
        elif len(srv.violations) > nviol:
            problem = ("server-logged-protocol-violation", srv.violations[nviol][:120])
        else:
            got = out[1]
            if op in ("listscripts", "getscript"):
                if conv:
                    g = got if op == "listscripts" else (None if got is None else norm(got))
                    if op == "listscripts" and got is not None:
                        g = (got[0], list(got[1]))
                    if g != want:
                        problem = ("result-differs-from-server-state",
                                   "got %r want %r" % (g, want))
                else:
                    if (got is None) != (want is None):
                        problem = ("success-failure-differs", "got %r want %r" % (got, want))
            elif emulated and not conv:
                # the emulation decides from a listing whose decoding under arbitrary
                # encodings is C17's business; only the shape of the result is judged
                if got not in (True, False):
                    problem = ("result-differs-from-server-state", "got %r" % (got,))
            elif want != "any":
                if got is not want:
                    problem = ("result-differs-from-server-state",
                               "got %r want %r" % (got, want))
        if problem is None:
            left, buf = sess.unread()
            if real_socket:
                left = b""  # bytes in flight live in the kernel; only the client buffer
            if left or buf:
                problem = ("bytes-left-unread", repr((left[:60], buf[:60] if buf else buf)))
        res.monitor("session-lockstep", problem is not None)
        if problem:
            res.violation({"op": op if not emulated else "renamescript(emulated)",
                           "problem": problem[0], "stratum": "conventional" if conv
                           else "any-encoding"},
                          {"steps": steps, "detail": problem[1], "segmented": segmented,
                           "server_scripts": sorted(k.decode() for k in srv.scripts),
                           "active": srv.active, "last_wire": sess.wire.recv_since(
                               max(0, sess.wire.mark() - 4))[-300:]})
            return
    res.case(repr((idx, steps)), nontrivial=len(steps) >= 5)
    if idx % 211 == 0:
        res.sample({"stratum": "conventional" if conv else "any-encoding", "steps": steps[:10],
                    "segmented": segmented, "server_has_VERSION": version}, 3)


def run_shard(tier, shard, res: Result):
    rng = random.Random(shard["rs"])
    if shard["w"] == "socketpair":
        for i in range(shard["n"]):
            run_session(rng, res, shard["rs"] * 100000 + i, real_socket=True)
        return
    for i in range(shard["n"]):
        run_session(rng, res, shard["rs"] * 100000 + i)
